//go:build verif

package contracts_test

// C06 (WP-O) — the consequence clause for a v2 contract AND its negotiated renewal, end to end on a real
// host (real sqlite store, chain manager, wallet, volume manager, contract manager) with a real chain,
// replayed block by block through coq/Actions/Liveness2R.v (which contains Liveness2G: batches, lag).
//
// The node is built here rather than by testutil.NewHostNode because the harness has to decide three
// things itself (timing must never decide an observation):
//   * the indexer: index.Manager.syncDB runs in its own goroutine whenever the chain changes; here the
//     same loop body (index/update.go:35-98: chain.UpdatesSince(index, batch), ONE store transaction with
//     wallet.UpdateChainState + contracts.UpdateChainState + SetLastIndex, then contracts.ProcessActions
//     and volumes.ProcessActions at the last index of the batch) is called by the harness with a batch
//     size of its choosing, after it put one or several blocks on the chain: tips inside a batch are never
//     processed (NoPass), a pass runs while the best chain is lag blocks ahead (Pass true lag);
//   * the prune (testutil's volume manager prunes every 30 s): PruneSectors is called where the case says;
//   * the restart: the store and all managers are closed and reopened on the same data directory.
// The syncer is the recording stub of the C06 selection harness: what ProcessActions hands to it in a pass
// IS the action set of that pass.
//
// Histories (directed cases 0-8, then generated: a variant, 1-3 sectors, random block / batch sizes):
//   0 never confirmed (funding input double-spent in a block mined elsewhere), successor rejected after the
//     reject buffer (10), rows deleted by that pass, pruned: the predecessor ends FAILED (recorded finding)
//   1 confirmed in the next block: renewed            2 never confirmed, no prune: successful
//   3 confirmed, then reorged out for good by a longer branch holding the double spend, pruned: FAILED (finding)
//   4 never confirmed, no prune, but the host restarts after the hand-over: FAILED (finding)
//   5 a foreign empty block first, then confirmed: the pass in between must re-broadcast the pending
//     successor's formation (= the renewal set) and does not (recorded finding pending-renewal-not-rebroadcast)
//   6 no renewal, one batch of 12 blocks steps over the window of 10: no pass inside the window, failed
//     (the model says so too; nothing the code could have done)
//   7 no renewal, batches of 3 with the chain running 4 ahead     8 no renewal, everything block by block
// Monitors (independent of the model): contract-with-held-data-failed / -not-successful (only where a pass
// ran inside the window in time), action-set-differs-from-spec (ALL action kinds of the property text —
// re-broadcast formation, broadcast final revision, build proof, expire — for all contracts of the node,
// from the manager's API view at the processed index, against what the pass handed to the syncer),
// unconfirmed-renewal-strands-predecessor, pending-renewal-not-rebroadcast, process-actions-fails.

import (
	"context"
	"fmt"
	"os"
	"path/filepath"
	"sort"
	"strings"
	"testing"
	"time"

	"go.sia.tech/core/consensus"
	rhp2 "go.sia.tech/core/rhp/v2"
	proto4 "go.sia.tech/core/rhp/v4"
	"go.sia.tech/core/types"
	"go.sia.tech/coreutils"
	"go.sia.tech/coreutils/chain"
	rhp4 "go.sia.tech/coreutils/rhp/v4"
	"go.sia.tech/coreutils/wallet"
	"go.sia.tech/hostd/v2/host/contracts"
	"go.sia.tech/hostd/v2/host/storage"
	"go.sia.tech/hostd/v2/index"
	"go.sia.tech/hostd/v2/internal/testutil"
	"go.sia.tech/hostd/v2/persist/sqlite"
	"go.uber.org/zap"
)

type c06Node struct {
	t       *testing.T
	dir     string
	hostKey types.PrivateKey
	cm      *chain.Manager
	db      *sqlite.Store
	wallet  *wallet.SingleAddressWallet
	vm      *storage.VolumeManager
	com     *contracts.Manager
	syncer  *c06Syncer
	spy     *c06PoolSpy
	index   types.ChainIndex // the processed tip (index.Manager.index)
}

// c06PoolSpy is the chain manager the contract manager sees: the real one, with the pool's verdict on every
// set recorded (the model's [ok] is measured here, at the boundary between hostd and coreutils; what
// ProcessActions does with the verdict is what the replay checks)
type c06PoolSpy struct {
	*chain.Manager
	refusedProof map[types.FileContractID]string // storage proofs refused during the current pass
	refused      map[string]string               // kind:id of every set the pool refused during the current pass
}

func (s *c06PoolSpy) AddV2PoolTransactions(basis types.ChainIndex, txns []types.V2Transaction) (bool, error) {
	known, err := s.Manager.AddV2PoolTransactions(basis, txns)
	if err != nil && len(txns) > 0 {
		last := txns[len(txns)-1]
		for _, r := range last.FileContractResolutions {
			switch r.Resolution.(type) {
			case *types.V2StorageProof:
				s.refusedProof[r.Parent.ID] = err.Error()
				s.refused["v2-proof:"+r.Parent.ID.String()] = err.Error()
			case *types.V2FileContractExpiration:
				s.refused["v2-expire:"+r.Parent.ID.String()] = err.Error()
			}
		}
		for _, r := range last.FileContractRevisions {
			s.refused["v2-revision:"+r.Parent.ID.String()] = err.Error()
		}
		for i := range last.FileContracts {
			s.refused["v2-rebroadcast:"+last.V2FileContractID(last.ID(), i).String()] = err.Error()
		}
	}
	return known, err
}

func newC06Chain(t *testing.T, network *consensus.Network, genesis types.Block) *chain.Manager {
	store, tipState, err := chain.NewDBStore(chain.NewMemDB(), network, genesis, nil)
	if err != nil {
		t.Fatal(err)
	}
	return chain.NewManager(store, tipState)
}

func (n *c06Node) open() {
	t := n.t
	db, err := sqlite.OpenDatabase(filepath.Join(n.dir, "hostd.sqlite3"), zap.NewNop())
	if err != nil {
		t.Fatal(err)
	}
	wm, err := wallet.NewSingleAddressWallet(n.hostKey, n.cm, db)
	if err != nil {
		t.Fatal(err)
	}
	vm, err := storage.NewVolumeManager(db, storage.WithPruneInterval(24*time.Hour))
	if err != nil {
		t.Fatal(err)
	}
	clog := zap.NewNop()
	if os.Getenv("VERIF_C06_DEBUG") != "" {
		clog, _ = zap.NewDevelopment()
	}
	com, err := contracts.NewManager(db, vm, n.spy, n.syncer, wm, contracts.WithRejectAfter(10), contracts.WithRevisionSubmissionBuffer(5), contracts.WithLog(clog))
	if err != nil {
		t.Fatal(err)
	}
	n.db, n.wallet, n.vm, n.com = db, wm, vm, com
}

func (n *c06Node) close() {
	n.com.Close()
	n.vm.Close()
	n.wallet.Close()
	n.db.Close()
}

func newC06Node(t *testing.T, hostKey types.PrivateKey, network *consensus.Network, genesis types.Block) *c06Node {
	n := &c06Node{t: t, dir: t.TempDir(), hostKey: hostKey, cm: newC06Chain(t, network, genesis), syncer: &c06Syncer{}}
	n.spy = &c06PoolSpy{Manager: n.cm, refusedProof: map[types.FileContractID]string{}, refused: map[string]string{}}
	n.open()
	t.Cleanup(func() { n.close() })
	return n
}

func (n *c06Node) mine(addr types.Address, k int) {
	for i := 0; i < k; i++ {
		b, ok := coreutils.MineBlock(n.cm, addr, 10*time.Second)
		if !ok {
			n.t.Fatal("failed to mine block")
		} else if err := n.cm.AddBlocks([]types.Block{b}); err != nil {
			n.t.Fatal(err)
		}
	}
}

// one iteration of index.Manager.syncDB with batch size max; returns false when there was nothing to do
func (n *c06Node) syncBatch(max int) (reverted []chain.RevertUpdate, applied []chain.ApplyUpdate, perr error, ok bool) {
	reverted, applied, err := n.cm.UpdatesSince(n.index, max)
	if err != nil {
		n.t.Fatal(err)
	} else if len(reverted) == 0 && len(applied) == 0 {
		return nil, nil, nil, false
	}
	idx := n.index
	err = n.db.UpdateChainState(func(tx index.UpdateTx) error {
		if err := n.wallet.UpdateChainState(tx, reverted, applied); err != nil {
			return err
		} else if err := n.com.UpdateChainState(tx, reverted, applied); err != nil {
			return err
		}
		if len(applied) > 0 {
			idx = applied[len(applied)-1].State.Index
		} else {
			idx = reverted[len(reverted)-1].State.Index
		}
		return tx.SetLastIndex(idx)
	})
	if err != nil {
		n.t.Fatal("UpdateChainState:", err)
	}
	n.index = idx
	n.syncer.v1, n.syncer.v2 = nil, nil
	n.spy.refusedProof = map[types.FileContractID]string{}
	n.spy.refused = map[string]string{}
	if perr = n.com.ProcessActions(idx); perr == nil {
		perr = n.vm.ProcessActions(idx)
	}
	return reverted, applied, perr, true
}

const (
	c06rNeverPruned = iota
	c06rConfirmed
	c06rNeverNotPruned
	c06rReorgedOut
	c06rRestarted
	c06rConfirmedLate
	c06rPlainSkipped
	c06rPlainLagging
	c06rPlain
	c06rVariants
)

type c06Sched struct {
	variant, nsec int
	blocks, batch func() int // how many blocks are put on the chain at once / processed at once
}

func c06RenewRun(t *testing.T, em *verifEmitter, id int, sc c06Sched) {
	seed := func(tag byte) []byte {
		b := make([]byte, 32)
		b[0], b[1], b[2] = tag, byte(id), byte(id>>8)
		return b
	}
	variant, nsec := sc.variant, sc.nsec
	renterKey, hostKey := types.NewPrivateKeyFromSeed(seed(5)), types.NewPrivateKeyFromSeed(seed(6))
	network, genesis := testutil.V2Network()
	node := newC06Node(t, hostKey, network, genesis)
	other := newC06Chain(t, network, genesis)
	cm := node.cm
	rng := verifCaseRand(id)

	var oldID, newID types.FileContractID
	var ph, eh uint64
	started := false
	negotiated, renewalOnChain, renewalValid, dataGone := false, false, false, false
	inTimePass := false                            // a pass ran at a tip inside the window while the best chain was below the expiration height
	proofHanded := map[types.FileContractID]bool{} // a proof went to the pool and is not mined yet
	plain := map[types.FileContractID]bool{}       // contracts whose formation set is an ordinary formation

	idOf := func(x types.FileContractID) string { return strings.TrimPrefix(x.String(), "fcid:")[:8] }
	// ---- the action set of a pass against the property text
	checkActions := func() {
		h := node.index.Height
		type key struct {
			kind string
			id   types.FileContractID
		}
		want, got := map[key]bool{}, map[key]bool{}
		v2s, _, err := node.com.V2Contracts(contracts.V2ContractFilter{})
		if err != nil {
			t.Fatal(err)
		}
		for _, c := range v2s {
			confirmed, unresolved := c.FormationIndex != (types.ChainIndex{}), c.ResolutionIndex == (types.ChainIndex{})
			if !confirmed && c.Status != contracts.V2ContractStatusRejected {
				want[key{"v2-rebroadcast", c.ID}] = true
			}
			if confirmed && unresolved && !c.RevisionConfirmed && h <= c.ProofHeight && c.ProofHeight <= h+5 {
				want[key{"v2-revision", c.ID}] = true
			}
			if confirmed && unresolved && c.ProofHeight <= h && h < c.ExpirationHeight {
				want[key{"v2-proof", c.ID}] = true
			}
			if confirmed && unresolved && c.ExpirationHeight <= h {
				want[key{"v2-expire", c.ID}] = true
			}
			// a v2 revision accepted now must still be confirmable before the proof window opens
			// (the proof is built from the stored roots, the chain keeps the last CONFIRMED revision):
			// the contract may report itself revisable only while tip + submission buffer (5 here) is
			// below its proof height — independent of what the manager computes
			if st, unlock, err := node.com.LockV2Contract(c.ID); err == nil {
				tip := cm.Tip().Height
				if st.Revisable && tip+5 >= c.ProofHeight {
					em.Monitor("v2-contract-revisable-after-last-confirmable-height", fmt.Sprintf("contract %s at tip %d: proof height %d, expiration %d, status %v", idOf(c.ID), tip, c.ProofHeight, c.ExpirationHeight, c.Status))
				}
				unlock()
			}
		}
		v1s, _, err := node.com.Contracts(contracts.ContractFilter{})
		if err != nil {
			t.Fatal(err)
		}
		for _, c := range v1s {
			unresolved := c.ResolutionHeight == 0
			if !c.FormationConfirmed && c.Status != contracts.ContractStatusRejected {
				want[key{"rebroadcast", c.Revision.ParentID}] = true
			}
			if c.FormationConfirmed && !c.RevisionConfirmed && h <= c.Revision.WindowStart && c.Revision.WindowStart <= h+5 {
				want[key{"revision", c.Revision.ParentID}] = true
			}
			if c.FormationConfirmed && unresolved && c.Revision.WindowStart <= h && h < c.Revision.WindowEnd {
				want[key{"proof", c.Revision.ParentID}] = true
			}
		}
		for _, set := range node.syncer.v1 {
			last := set[len(set)-1]
			switch {
			case len(last.FileContracts) > 0:
				got[key{"rebroadcast", last.FileContractID(0)}] = true
			case len(last.FileContractRevisions) > 0:
				got[key{"revision", last.FileContractRevisions[0].ParentID}] = true
			case len(last.StorageProofs) > 0:
				got[key{"proof", last.StorageProofs[0].ParentID}] = true
			}
		}
		for _, set := range node.syncer.v2 {
			last := set[len(set)-1]
			switch {
			case len(last.FileContracts) > 0:
				got[key{"v2-rebroadcast", last.V2FileContractID(last.ID(), 0)}] = true
			case len(last.FileContractRevisions) > 0:
				got[key{"v2-revision", last.FileContractRevisions[0].Parent.ID}] = true
			case len(last.FileContractResolutions) > 0:
				r := last.FileContractResolutions[0]
				switch r.Resolution.(type) {
				case *types.V2StorageProof:
					got[key{"v2-proof", r.Parent.ID}] = true
				case *types.V2FileContractExpiration:
					got[key{"v2-expire", r.Parent.ID}] = true
				case *types.V2FileContractRenewal:
					got[key{"v2-rebroadcast", types.FileContractID(r.Parent.ID).V2RenewalID()}] = true
				}
			}
		}
		var diffs []string
		for k := range got {
			em.Count("action:" + k.kind)
			if !want[k] {
				diffs = append(diffs, fmt.Sprintf("%s of %s handed over but not required", k.kind, idOf(k.id)))
			}
		}
		for k := range want {
			if got[k] {
				continue
			}
			switch {
			case node.spy.refused[k.kind+":"+k.id.String()] != "":
				// ProcessActions built the action and the pool refused the set (a conflict with the action
				// of an earlier pass that is still unmined, stale proofs while the indexer lags, ...):
				// nothing can be announced
				em.Count("action-refused-by-pool:" + k.kind)
			case k.kind == "v2-rebroadcast" && !plain[k.id]:
				// the successor's formation set is the renewal set; a set the chain has invalidated cannot be re-broadcast
				if renewalValid {
					em.Monitor("pending-renewal-not-rebroadcast", fmt.Sprintf("tip %d: successor %s is unconfirmed and not rejected, its renewal set is still valid (the next block confirms it), but ProcessActions skips a formation set whose last transaction holds no FileContracts (update.go:321)", h, idOf(k.id)))
				}
			case k.kind == "v2-revision" && h == ph:
				// consensus refuses a revision in the block after the proof height (recorded finding of WP-U)
			case k.kind == "v2-proof" && (dataGone || proofHanded[k.id] || node.spy.refusedProof[k.id] != ""):
				// the stranded predecessor (reported when it fails) / a second proof conflicts with the one in the pool
			case k.kind == "v2-expire" && proofHanded[k.id]:
				// the expiration conflicts with the proof in the pool
			default:
				diffs = append(diffs, fmt.Sprintf("%s of %s required but not handed over", k.kind, idOf(k.id)))
			}
		}
		if len(diffs) > 0 {
			sort.Strings(diffs)
			em.Monitor("action-set-differs-from-spec", fmt.Sprintf("processed tip %d (best chain %d): %s", h, cm.Tip().Height, strings.Join(diffs, "; ")))
		}
		for k := range got {
			if k.kind == "v2-proof" {
				proofHanded[k.id] = true
			}
		}
	}

	st2 := func(s contracts.V2ContractStatus) string { return c06St2[s] }
	observe := func(sent bool) string {
		c, err := node.com.V2Contract(oldID)
		if err != nil {
			t.Fatal(err)
		}
		all, err := node.db.V2SectorRoots()
		if err != nil {
			t.Fatal(err)
		}
		succ := "None"
		if negotiated {
			s, err := node.com.V2Contract(newID)
			if err != nil {
				t.Fatal(err)
			}
			succ = "(Some " + st2(s.Status) + ")"
		}
		h := node.index.Height
		if c.Status == contracts.V2ContractStatusFailed {
			switch {
			case negotiated && !renewalOnChain && dataGone:
				em.Monitor("unconfirmed-renewal-strands-predecessor", fmt.Sprintf("variant %d: renewal negotiated, not on the best chain, the predecessor (window %d-%d, %d sectors) lost its roots / sectors and ends failed at height %d", variant, ph, eh, nsec, h))
			case inTimePass:
				em.Monitor("contract-with-held-data-failed", fmt.Sprintf("v2 predecessor tip %d window %d-%d variant %d", h, ph, eh, variant))
			}
		}
		if h >= eh+2 && inTimePass && c.Status != contracts.V2ContractStatusSuccessful && c.Status != contracts.V2ContractStatusRenewed && !(negotiated && !renewalOnChain && dataGone) {
			em.Monitor("contract-with-held-data-not-successful", fmt.Sprintf("v2 predecessor tip %d window %d-%d: %v", h, ph, eh, c.Status))
		}
		em.Count("pred-row:" + string(c.Status))
		return fmt.Sprintf("LRowR %s %v %v %v %s %v", st2(c.Status), c.FormationIndex != (types.ChainIndex{}), c.ResolutionIndex != (types.ChainIndex{}), sent, succ, len(all[newID]) > 0)
	}
	blkCache := map[types.BlockID]string{}
	blkOf := func(b types.Block) string {
		if s, ok := blkCache[b.ID()]; ok {
			return s
		}
		form, rev, proof, renew, expire := "None", "None", false, false, false
		for _, txn := range b.V2Transactions() {
			for i, c := range txn.FileContracts {
				if txn.V2FileContractID(txn.ID(), i) == oldID {
					form = fmt.Sprintf("(Some %d%%N)", c.RevisionNumber)
				}
			}
			for _, r := range txn.FileContractRevisions {
				if r.Parent.ID == oldID {
					rev = fmt.Sprintf("(Some %d%%N)", r.Revision.RevisionNumber)
				}
			}
			for _, r := range txn.FileContractResolutions {
				if r.Parent.ID != oldID {
					continue
				}
				switch r.Resolution.(type) {
				case *types.V2StorageProof:
					proof = true
				case *types.V2FileContractRenewal:
					renew = true
				case *types.V2FileContractExpiration:
					expire = true
				}
			}
		}
		switch {
		case proof:
			em.Count("block:proof")
		case renew:
			em.Count("block:renewal")
		case expire:
			em.Count("block:expiration")
		}
		blkCache[b.ID()] = fmt.Sprintf("{| d_form := %s; d_rev := %s; d_proof := %v; d_renew := %v; d_expire := %v |}", form, rev, proof, renew, expire)
		return blkCache[b.ID()]
	}
	// process the chain in batches of the schedule's sizes until the host has caught up
	sync := func(batch func() int) {
		for {
			reverted, applied, perr, ok := node.syncBatch(batch())
			if !ok {
				return
			}
			if perr != nil {
				em.Monitor("process-actions-fails", fmt.Sprintf("tip %v: %v", node.index, perr))
			}
			lag := cm.Tip().Height - node.index.Height
			why, refused := node.spy.refusedProof[oldID]
			pact := fmt.Sprintf("(Pass %v %d)", !refused, lag)
			if refused {
				em.Count("pass:pool-refuses-proof")
				_ = why
			}
			if lag > 0 {
				em.Count("pass:lagging")
			} else {
				em.Count("pass:caught-up")
			}
			if len(reverted)+len(applied) > 1 {
				em.Count("batch:several-blocks")
			}
			if !started {
				continue // the chain before the contract exists: recorded as empty blocks after LRStart
			}
			checkActions()
			sent := false
			for _, set := range node.syncer.v2 {
				for _, r := range set[len(set)-1].FileContractResolutions {
					if _, isProof := r.Resolution.(*types.V2StorageProof); isProof && r.Parent.ID == oldID {
						sent = true
					}
				}
			}
			if h := node.index.Height; ph <= h && h < eh && cm.Tip().Height < eh && !dataGone && !refused {
				inTimePass = true
			}
			// the renewal is on the best chain iff the processed chain holds it (the host has caught up when it matters)
			for _, cru := range reverted {
				if strings.Contains(blkOf(cru.Block), "d_renew := true") {
					renewalOnChain = false
				}
			}
			for _, cau := range applied {
				if strings.Contains(blkOf(cau.Block), "d_renew := true") {
					renewalOnChain = true
				}
			}
			for i := range reverted {
				if i == len(reverted)-1 && len(applied) == 0 {
					em.Step("LRStep (RRevert "+pact+")", observe(sent))
				} else {
					em.Step("LRStep (RRevert NoPass)", "LNone")
				}
				em.Count("step:revert")
			}
			for i, cau := range applied {
				if i == len(applied)-1 {
					em.Step("LRStep (RMine "+blkOf(cau.Block)+" "+pact+")", observe(sent))
				} else {
					em.Step("LRStep (RMine "+blkOf(cau.Block)+" NoPass)", "LNone")
					em.Count("pass:none")
				}
			}
		}
	}
	one := func() int { return 1 }
	all := func() int { return 1000 }

	// funds; a volume
	node.mine(node.wallet.Address(), int(network.MaturityDelay+8))
	sync(all)
	result := make(chan error, 1)
	if _, err := node.vm.AddVolume(context.Background(), filepath.Join(node.dir, "v.dat"), 10, result); err != nil {
		t.Fatal(err)
	} else if err := <-result; err != nil {
		t.Fatal(err)
	}

	// a second, ordinary contract of the node (no data, proof window 4 blocks earlier) for the action sets
	otherID, ofc := formV2Contract(t, cm, node.com, node.wallet, nil, renterKey, hostKey, types.Siacoins(5), types.Siacoins(6), 21, false)
	plain[otherID] = true
	_ = ofc
	neg := cm.Tip().Height
	var fc types.V2FileContract
	oldID, fc = formV2Contract(t, cm, node.com, node.wallet, nil, renterKey, hostKey, types.Siacoins(10), types.Siacoins(20), 25, false)
	plain[oldID] = true
	newID = oldID.V2RenewalID()
	ph, eh = fc.ProofHeight, fc.ExpirationHeight
	em.Step(fmt.Sprintf("LRStart {| rp := {| q_ph := %d; q_eh := %d; q_neg := %d; q_rev0 := 0; q_rb := 10; q_benefit := true; q_held := true |}; s_ph := %d; s_eh := %d; s_rev0 := 0; s_rev := 0 |}",
		ph, eh, neg, ph+20, eh+20), "LNone")
	for h := uint64(0); h < neg; h++ {
		em.Step("LRStep (RMine {| d_form := None; d_rev := None; d_proof := false; d_renew := false; d_expire := false |} NoPass)", "LNone")
	}
	started = true
	// the pass of the next block re-broadcasts both formations (they were not handed to the pool by the "RPC")
	node.mine(types.VoidAddress, 1)
	sync(one)
	node.mine(types.VoidAddress, 1) // ... and this block confirms them
	sync(one)
	if c, _ := node.com.V2Contract(oldID); c.Status != contracts.V2ContractStatusActive {
		t.Fatal("setup: formation not confirmed", c.Status)
	}

	// upload nsec sectors (one revision)
	var roots []types.Hash256
	for i := 0; i < nsec; i++ {
		var sector [rhp2.SectorSize]byte
		rng.Read(sector[:256])
		root := rhp2.SectorRoot(&sector)
		if err := node.vm.Write(root, &sector); err != nil {
			t.Fatal(err)
		}
		roots = append(roots, root)
	}
	fc.Filesize = proto4.SectorSize * uint64(nsec)
	fc.Capacity, fc.FileMerkleRoot = fc.Filesize, proto4.MetaRoot(roots)
	fc.RevisionNumber++
	cost, collateral := types.Siacoins(1), types.Siacoins(2)
	fc.RenterOutput.Value = fc.RenterOutput.Value.Sub(cost)
	fc.HostOutput.Value = fc.HostOutput.Value.Add(cost)
	fc.MissedHostValue = fc.MissedHostValue.Sub(collateral)
	sigHash := cm.TipState().ContractSigHash(fc)
	fc.HostSignature, fc.RenterSignature = hostKey.SignHash(sigHash), renterKey.SignHash(sigHash)
	if err := node.com.ReviseV2Contract(oldID, fc, roots, proto4.Usage{Storage: cost, RiskedCollateral: collateral}); err != nil {
		t.Fatal(err)
	}
	if err := node.vm.Sync(); err != nil {
		t.Fatal(err)
	}
	for i := rng.Intn(3); i > 0; i-- {
		node.mine(types.VoidAddress, 1)
		sync(one)
	}

	if variant < c06rPlainSkipped {
		// the other node follows the same chain
		var shared []types.Block
		for h := uint64(1); h <= cm.Tip().Height; h++ {
			idx, _ := cm.BestIndex(h)
			b, _ := cm.Block(idx.ID)
			shared = append(shared, b)
		}
		if err := other.AddBlocks(shared); err != nil {
			t.Fatal(err)
		}
		// RPCRenewContract as coreutils' server does it
		cs := cm.TipState()
		_, fce, err := node.com.V2FileContractElement(oldID)
		if err != nil {
			t.Fatal(err)
		}
		additional := types.Siacoins(2)
		renewal := types.V2FileContractRenewal{
			NewContract: types.V2FileContract{
				Filesize: fc.Filesize, Capacity: fc.Capacity, FileMerkleRoot: fc.FileMerkleRoot,
				ProofHeight: fc.ProofHeight + 20, ExpirationHeight: fc.ExpirationHeight + 20,
				RenterOutput:    fc.RenterOutput,
				HostOutput:      types.SiacoinOutput{Address: fc.HostOutput.Address, Value: fc.HostOutput.Value.Add(additional)},
				MissedHostValue: fc.MissedHostValue.Add(additional), TotalCollateral: fc.TotalCollateral.Add(additional),
				RenterPublicKey: renterKey.PublicKey(), HostPublicKey: hostKey.PublicKey(),
			},
			HostRollover: fc.HostOutput.Value, RenterRollover: fc.RenterOutput.Value,
		}
		rsh := cs.RenewalSigHash(renewal)
		renewal.HostSignature, renewal.RenterSignature = hostKey.SignHash(rsh), renterKey.SignHash(rsh)
		csh := cs.ContractSigHash(renewal.NewContract)
		renewal.NewContract.HostSignature, renewal.NewContract.RenterSignature = hostKey.SignHash(csh), renterKey.SignHash(csh)
		fundAmount := cs.V2FileContractTax(renewal.NewContract).Add(additional)
		setupTxn := types.V2Transaction{SiacoinOutputs: []types.SiacoinOutput{{Value: fundAmount, Address: fc.HostOutput.Address}}}
		basis, toSign, err := node.wallet.FundV2Transaction(&setupTxn, fundAmount, false)
		if err != nil {
			t.Fatal(err)
		}
		node.wallet.SignV2Inputs(&setupTxn, toSign)
		renewalTxn := types.V2Transaction{
			SiacoinInputs:           []types.V2SiacoinInput{{Parent: setupTxn.EphemeralSiacoinOutput(0)}},
			FileContractResolutions: []types.V2FileContractResolution{{Parent: fce.Copy(), Resolution: &renewal}},
		}
		node.wallet.SignV2Inputs(&renewalTxn, []int{0})
		set := rhp4.TransactionSet{Basis: basis, Transactions: []types.V2Transaction{setupTxn, renewalTxn}}
		if _, err := cm.AddV2PoolTransactions(set.Basis, set.Transactions); err != nil {
			t.Fatal("renewal refused by the pool:", err)
		}
		if err := node.com.RenewV2Contract(set, proto4.Usage{RiskedCollateral: renewal.NewContract.TotalCollateral.Sub(renewal.NewContract.MissedHostValue)}); err != nil {
			t.Fatal(err)
		}
		negotiated, renewalValid = true, true
		em.Step("LRStep RNegotiate", observe(false))

		// a block mined elsewhere: with the double spend of the renewal's funding input, or empty
		foreign := func(doubleSpend bool, k int) {
			if doubleSpend {
				conflict := types.V2Transaction{
					SiacoinInputs:  []types.V2SiacoinInput{{Parent: setupTxn.SiacoinInputs[0].Parent.Copy()}},
					SiacoinOutputs: []types.SiacoinOutput{{Address: types.VoidAddress, Value: setupTxn.SiacoinInputs[0].Parent.SiacoinOutput.Value}},
				}
				conflict.SiacoinInputs[0].SatisfiedPolicy = setupTxn.SiacoinInputs[0].SatisfiedPolicy
				conflict.SiacoinInputs[0].SatisfiedPolicy.Signatures = []types.Signature{hostKey.SignHash(cs.InputSigHash(conflict))}
				if _, err := other.AddV2PoolTransactions(basis, []types.V2Transaction{conflict}); err != nil {
					t.Fatal("conflicting spend refused:", err)
				}
			}
			var bs []types.Block
			for i := 0; i < k; i++ {
				b, ok := coreutils.MineBlock(other, types.VoidAddress, 10*time.Second)
				if !ok {
					t.Fatal("failed to mine block")
				} else if err := other.AddBlocks([]types.Block{b}); err != nil {
					t.Fatal(err)
				}
				bs = append(bs, b)
			}
			if err := cm.AddBlocks(bs); err != nil {
				t.Fatal(err)
			}
			if doubleSpend {
				renewalValid = false
			}
		}
		switch variant {
		case c06rConfirmed:
			node.mine(types.VoidAddress, 1)
			sync(one)
		case c06rConfirmedLate:
			foreign(false, 1)
			sync(one)
			// the renter re-broadcasts the set (the host does not); if the pool takes it the next block confirms it
			if _, err := cm.AddV2PoolTransactions(set.Basis, set.Transactions); err != nil {
				em.Count("late-renewal:pool-refuses")
			} else {
				em.Count("late-renewal:pool-accepts")
			}
			node.mine(types.VoidAddress, 1)
			sync(one)
		case c06rReorgedOut:
			node.mine(types.VoidAddress, 1) // confirmed ...
			sync(one)
			foreign(true, 2) // ... and replaced by a longer branch without it
			sync(sc.batch)
		case c06rRestarted:
			node.close()
			node.open()
			dataGone = true // the manager's cache was reloaded from rows the predecessor no longer has
			em.Step("LRStep RRestart", observe(false))
			foreign(true, 1)
			sync(one)
		default:
			foreign(true, 1)
			sync(one)
		}
	}

	pruned := false
	for node.index.Height <= eh+2 {
		k := sc.blocks()
		if variant == c06rPlainSkipped && node.index.Height+1 < ph {
			k = 1 // walk up to the block before the window, then the schedule's one big batch
		}
		node.mine(types.VoidAddress, k)
		sync(sc.batch)
		if (variant == c06rNeverPruned || variant == c06rReorgedOut) && !pruned {
			if s, _ := node.com.V2Contract(newID); s.Status == contracts.V2ContractStatusRejected {
				if err := node.db.PruneSectors(context.Background(), time.Now().Add(time.Hour)); err != nil {
					t.Fatal(err)
				}
				pruned, dataGone = true, true
				em.Step("LRStep RPrune", "LNone")
			}
		}
	}
	em.Count(fmt.Sprintf("variant:%d", variant))
}

func TestVerifC06Renew(t *testing.T) {
	em := newVerifEmitter(t, "From HostdBase Require Import Base.\nFrom HostdActions Require Import Rows Liveness Liveness2 Liveness2G Liveness1G Liveness2R LivenessCorr.", "lcase", "lcheck")
	defer em.Close()
	n := verifN(3)
	for id := 0; id < c06rVariants+n; id++ {
		if em.Skip(id) {
			continue
		}
		rng := verifCaseRand(id)
		one := func() int { return 1 }
		sc := c06Sched{variant: id, nsec: 1 + id%3, blocks: one, batch: one}
		desc := "directed"
		switch {
		case id == c06rReorgedOut:
			sc.batch = func() int { return 1 } // revert, then the two foreign blocks, one batch each
		case id == c06rPlainSkipped:
			sc.blocks, sc.batch = func() int { return 12 }, func() int { return 12 }
		case id == c06rPlainLagging:
			sc.blocks, sc.batch = func() int { return 4 }, func() int { return 3 }
		case id >= c06rVariants:
			desc = "generated"
			sc.variant, sc.nsec = rng.Intn(c06rVariants), 1+rng.Intn(3)
			if sc.variant == c06rPlainSkipped {
				sc.variant = c06rPlain
			}
			sc.blocks = func() int { return 1 + rng.Intn(3) }
			sc.batch = func() int { return 1 + rng.Intn(4) }
		}
		em.BeginCase(id, fmt.Sprintf("%s variant %d, %d sectors", desc, sc.variant, sc.nsec))
		t.Run(fmt.Sprintf("case-%d", id), func(t *testing.T) { c06RenewRun(t, em, id, sc) })
		em.EndCase(true)
	}
}
