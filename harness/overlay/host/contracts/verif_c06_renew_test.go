//go:build verif

package contracts_test

// C06 (WP-O) — the consequence clause for a v2 contract AND its negotiated renewal, end to end on a real
// host node with a real chain, replayed block by block through coq/Actions/Liveness2R.v.
//
// A v2 contract is formed from the host's wallet, confirmed, filled with sectors in a real volume and
// revised; it is renewed exactly as the coreutils RHP4 server does it (pool validation,
// Manager.RenewV2Contract: the roots move to the successor at RPC time).  Then
//   * the renewal is mined with the next block (control): the predecessor ends renewed;
//   * the renewal's funding input is double-spent in the next block (mined elsewhere): the successor is
//     rejected after the reject buffer (10), the pass of that block deletes its root rows; with a prune
//     after that the predecessor cannot build its proof and ends failed (known finding
//     unconfirmed-renewal-strands-predecessor); without a prune the manager's cached roots and the
//     sectors are still there and the proof is built: successful.
// The chain is then mined one block at a time (every block with the pool's transactions, index batch
// size 1) past the predecessor's expiration height.  Recorded per block of the best chain: what it holds
// about the predecessor (formation, revision, proof, renewal, expiration — read from the block), and after
// the indexer caught up: the predecessor's row, whether a storage proof of it is in the pool, the
// successor's status and whether it has root rows.  Monitors (independent of the model):
// contract-with-held-data-failed, action-set-differs-from-spec (a proof of the predecessor is in the pool
// at a processed tip iff the property text asks for one: confirmed, unresolved, window contains the height,
// data held), unconfirmed-renewal-strands-predecessor.

import (
	"context"
	"fmt"
	"path/filepath"
	"testing"
	"time"

	rhp2 "go.sia.tech/core/rhp/v2"
	proto4 "go.sia.tech/core/rhp/v4"
	"go.sia.tech/core/types"
	rhp4 "go.sia.tech/coreutils/rhp/v4"
	"go.sia.tech/hostd/v2/host/contracts"
	"go.sia.tech/hostd/v2/internal/testutil"
	"go.uber.org/zap"
)

const (
	c06rConfirmed = iota
	c06rNeverPruned
	c06rNeverNotPruned
)

func c06RenewRun(t *testing.T, em *verifEmitter, id, variant, nsec int) {
	log := zap.NewNop()
	seed := func(tag byte) []byte {
		b := make([]byte, 32)
		b[0], b[1], b[2] = tag, byte(id), byte(id>>8)
		return b
	}
	renterKey, hostKey := types.NewPrivateKeyFromSeed(seed(5)), types.NewPrivateKeyFromSeed(seed(6))
	network, genesis := testutil.V2Network()
	node := testutil.NewHostNode(t, hostKey, network, genesis, log)
	other := testutil.NewConsensusNode(t, network, genesis, log)
	testutil.MineAndSync(t, node, node.Wallet.Address(), int(network.MaturityDelay+5))
	result := make(chan error, 1)
	if _, err := node.Volumes.AddVolume(context.Background(), filepath.Join(t.TempDir(), "v.dat"), 10, result); err != nil {
		t.Fatal(err)
	} else if err := <-result; err != nil {
		t.Fatal(err)
	}
	cm, com := node.Chain, node.Contracts
	rng := verifCaseRand(id)

	neg := cm.Tip().Height
	oldID, fc := formV2Contract(t, cm, com, node.Wallet, node.Syncer, renterKey, hostKey, types.Siacoins(10), types.Siacoins(20), 25, true)
	newID := oldID.V2RenewalID()
	ph, eh := fc.ProofHeight, fc.ExpirationHeight
	em.Step(fmt.Sprintf("LRStart {| rp := {| q_ph := %d; q_eh := %d; q_neg := %d; q_rev0 := 0; q_rb := 10; q_benefit := true; q_held := true |}; s_ph := %d; s_eh := %d; s_rev0 := 0; s_rev := 0 |}",
		ph, eh, neg, ph+20, eh+20), "LNone")
	for h := uint64(1); h <= neg; h++ { // the chain before the contract exists
		em.Step("LRStep (RMine {| d_form := None; d_rev := None; d_proof := false; d_renew := false; d_expire := false |} NoPass)", "LNone")
	}

	negotiated, renewalOnChain, dataGone := false, false, false
	st2 := func(s contracts.V2ContractStatus) string { return c06St2[s] }
	proofInPool := func() bool {
		for _, txn := range cm.V2PoolTransactions() {
			for _, res := range txn.FileContractResolutions {
				if _, ok := res.Resolution.(*types.V2StorageProof); ok && res.Parent.ID == oldID {
					return true
				}
			}
		}
		return false
	}
	observe := func() string {
		c, err := com.V2Contract(oldID)
		if err != nil {
			t.Fatal(err)
		}
		all, err := node.Store.V2SectorRoots()
		if err != nil {
			t.Fatal(err)
		}
		succ := "None"
		if negotiated {
			s, err := com.V2Contract(newID)
			if err != nil {
				t.Fatal(err)
			}
			succ = "(Some " + st2(s.Status) + ")"
		}
		h := cm.Tip().Height
		sent := proofInPool()
		// the property text: a proof for exactly the confirmed, unresolved contracts whose window contains the height
		// (after the prune of case "never confirmed" the proof cannot be built: its absence is the recorded finding,
		// reported below when the contract fails, not a difference of the action set)
		want := c.Status == contracts.V2ContractStatusActive && ph <= h && h < eh
		if (sent && !want) || (!sent && want && !dataGone) {
			em.Monitor("action-set-differs-from-spec", fmt.Sprintf("tip %d window %d-%d predecessor %v: proof in pool %v, required %v", h, ph, eh, c.Status, sent, want))
		}
		if c.Status == contracts.V2ContractStatusFailed {
			if negotiated && !renewalOnChain {
				em.Monitor("unconfirmed-renewal-strands-predecessor", fmt.Sprintf("renewal negotiated, never confirmed, successor rejected, rows deleted, pruned: the predecessor (window %d-%d, %d sectors) ends failed at height %d", ph, eh, nsec, h))
			} else {
				em.Monitor("contract-with-held-data-failed", fmt.Sprintf("v2 predecessor tip %d window %d-%d", h, ph, eh))
			}
		}
		if h >= eh+2 && c.Status != contracts.V2ContractStatusSuccessful && c.Status != contracts.V2ContractStatusRenewed && !(negotiated && !renewalOnChain && dataGone) {
			em.Monitor("contract-with-held-data-not-successful", fmt.Sprintf("v2 predecessor tip %d window %d-%d: %v", h, ph, eh, c.Status))
		}
		em.Count("pred-row:" + string(c.Status))
		return fmt.Sprintf("LRowR %s %v %v %v %s %v", st2(c.Status), c.FormationIndex != (types.ChainIndex{}), c.ResolutionIndex != (types.ChainIndex{}), sent, succ, len(all[newID]) > 0)
	}
	// record the tip block of the best chain as the model's block
	record := func() {
		b, ok := cm.Block(cm.Tip().ID)
		if !ok {
			t.Fatal("tip block missing")
		}
		form, rev, proof, renew, expire := "None", "None", false, false, false
		for _, txn := range b.V2Transactions() {
			for i, c := range txn.FileContracts {
				if txn.V2FileContractID(txn.ID(), i) == oldID {
					form = fmt.Sprintf("(Some %d%%N)", c.RevisionNumber)
				}
			}
			for _, r := range txn.FileContractRevisions {
				if r.Parent.ID == oldID {
					rev = fmt.Sprintf("(Some %d%%N)", r.Revision.RevisionNumber)
				}
			}
			for _, r := range txn.FileContractResolutions {
				if r.Parent.ID != oldID {
					continue
				}
				switch r.Resolution.(type) {
				case *types.V2StorageProof:
					proof = true
				case *types.V2FileContractRenewal:
					renew, renewalOnChain = true, true
				case *types.V2FileContractExpiration:
					expire = true
				}
			}
		}
		switch {
		case proof:
			em.Count("block:proof")
		case renew:
			em.Count("block:renewal")
		case expire:
			em.Count("block:expiration")
		}
		em.Step(fmt.Sprintf("LRStep (RMine {| d_form := %s; d_rev := %s; d_proof := %v; d_renew := %v; d_expire := %v |} (Pass true 0))", form, rev, proof, renew, expire), observe())
	}
	mine := func() {
		testutil.MineAndSync(t, node, types.VoidAddress, 1)
		record()
	}

	mine() // the formation
	// upload nsec sectors (one revision)
	var roots []types.Hash256
	for i := 0; i < nsec; i++ {
		var sector [rhp2.SectorSize]byte
		rng.Read(sector[:256])
		root := rhp2.SectorRoot(&sector)
		if err := node.Volumes.Write(root, &sector); err != nil {
			t.Fatal(err)
		}
		roots = append(roots, root)
	}
	fc.Filesize = proto4.SectorSize * uint64(nsec)
	fc.Capacity, fc.FileMerkleRoot = fc.Filesize, proto4.MetaRoot(roots)
	fc.RevisionNumber++
	cost, collateral := types.Siacoins(1), types.Siacoins(2)
	fc.RenterOutput.Value = fc.RenterOutput.Value.Sub(cost)
	fc.HostOutput.Value = fc.HostOutput.Value.Add(cost)
	fc.MissedHostValue = fc.MissedHostValue.Sub(collateral)
	sigHash := cm.TipState().ContractSigHash(fc)
	fc.HostSignature, fc.RenterSignature = hostKey.SignHash(sigHash), renterKey.SignHash(sigHash)
	if err := com.ReviseV2Contract(oldID, fc, roots, proto4.Usage{Storage: cost, RiskedCollateral: collateral}); err != nil {
		t.Fatal(err)
	}
	if err := node.Volumes.Sync(); err != nil {
		t.Fatal(err)
	}
	for i := rng.Intn(3); i > 0; i-- {
		mine()
	}

	// the other node follows the same chain
	var shared []types.Block
	for h := uint64(1); h <= cm.Tip().Height; h++ {
		index, _ := cm.BestIndex(h)
		b, _ := cm.Block(index.ID)
		shared = append(shared, b)
	}
	if err := other.Chain.AddBlocks(shared); err != nil {
		t.Fatal(err)
	}

	// RPCRenewContract as coreutils' server does it
	cs := cm.TipState()
	_, fce, err := com.V2FileContractElement(oldID)
	if err != nil {
		t.Fatal(err)
	}
	additional := types.Siacoins(2)
	renewal := types.V2FileContractRenewal{
		NewContract: types.V2FileContract{
			Filesize: fc.Filesize, Capacity: fc.Capacity, FileMerkleRoot: fc.FileMerkleRoot,
			ProofHeight: fc.ProofHeight + 20, ExpirationHeight: fc.ExpirationHeight + 20,
			RenterOutput:    fc.RenterOutput,
			HostOutput:      types.SiacoinOutput{Address: fc.HostOutput.Address, Value: fc.HostOutput.Value.Add(additional)},
			MissedHostValue: fc.MissedHostValue.Add(additional), TotalCollateral: fc.TotalCollateral.Add(additional),
			RenterPublicKey: renterKey.PublicKey(), HostPublicKey: hostKey.PublicKey(),
		},
		HostRollover: fc.HostOutput.Value, RenterRollover: fc.RenterOutput.Value,
	}
	rsh := cs.RenewalSigHash(renewal)
	renewal.HostSignature, renewal.RenterSignature = hostKey.SignHash(rsh), renterKey.SignHash(rsh)
	csh := cs.ContractSigHash(renewal.NewContract)
	renewal.NewContract.HostSignature, renewal.NewContract.RenterSignature = hostKey.SignHash(csh), renterKey.SignHash(csh)
	fundAmount := cs.V2FileContractTax(renewal.NewContract).Add(additional)
	setupTxn := types.V2Transaction{SiacoinOutputs: []types.SiacoinOutput{{Value: fundAmount, Address: fc.HostOutput.Address}}}
	basis, toSign, err := node.Wallet.FundV2Transaction(&setupTxn, fundAmount, false)
	if err != nil {
		t.Fatal(err)
	}
	node.Wallet.SignV2Inputs(&setupTxn, toSign)
	renewalTxn := types.V2Transaction{
		SiacoinInputs:           []types.V2SiacoinInput{{Parent: setupTxn.EphemeralSiacoinOutput(0)}},
		FileContractResolutions: []types.V2FileContractResolution{{Parent: fce.Copy(), Resolution: &renewal}},
	}
	node.Wallet.SignV2Inputs(&renewalTxn, []int{0})
	set := rhp4.TransactionSet{Basis: basis, Transactions: []types.V2Transaction{setupTxn, renewalTxn}}
	if _, err := cm.AddV2PoolTransactions(set.Basis, set.Transactions); err != nil {
		t.Fatal("renewal refused by the pool:", err)
	}
	if err := com.RenewV2Contract(set, proto4.Usage{RiskedCollateral: renewal.NewContract.TotalCollateral.Sub(renewal.NewContract.MissedHostValue)}); err != nil {
		t.Fatal(err)
	}
	negotiated = true
	em.Step("LRStep RNegotiate", observe())
	em.Count(fmt.Sprintf("variant:%d", variant))

	if variant == c06rConfirmed {
		mine() // the renewal is mined with the next block
	} else {
		// the double spend of the funding input wins the next block (mined elsewhere)
		conflict := types.V2Transaction{
			SiacoinInputs:  []types.V2SiacoinInput{{Parent: setupTxn.SiacoinInputs[0].Parent.Copy()}},
			SiacoinOutputs: []types.SiacoinOutput{{Address: types.VoidAddress, Value: setupTxn.SiacoinInputs[0].Parent.SiacoinOutput.Value}},
		}
		conflict.SiacoinInputs[0].SatisfiedPolicy = setupTxn.SiacoinInputs[0].SatisfiedPolicy
		conflict.SiacoinInputs[0].SatisfiedPolicy.Signatures = []types.Signature{hostKey.SignHash(cs.InputSigHash(conflict))}
		if _, err := other.Chain.AddV2PoolTransactions(basis, []types.V2Transaction{conflict}); err != nil {
			t.Fatal("conflicting spend refused:", err)
		}
		testutil.MineBlocks(t, other, types.VoidAddress, 1)
		tb, _ := other.Chain.Block(other.Chain.Tip().ID)
		if err := cm.AddBlocks([]types.Block{tb}); err != nil {
			t.Fatal(err)
		}
		testutil.WaitForSync(t, cm, node.Indexer)
		record()
	}
	pruned := false
	for cm.Tip().Height <= eh+2 {
		mine()
		if variant == c06rNeverPruned && !pruned {
			if s, _ := com.V2Contract(newID); s.Status == contracts.V2ContractStatusRejected {
				if err := node.Store.PruneSectors(context.Background(), time.Now().Add(time.Hour)); err != nil {
					t.Fatal(err)
				}
				pruned, dataGone = true, true
				em.Step("LRStep RPrune", "LNone")
			}
		}
	}
}

func TestVerifC06Renew(t *testing.T) {
	em := newVerifEmitter(t, "From HostdBase Require Import Base.\nFrom HostdActions Require Import Rows Liveness Liveness2 Liveness2G Liveness2R LivenessCorr.", "lcase", "lcheck")
	defer em.Close()
	n := verifN(3)
	for id := 0; id < 3+n; id++ {
		if em.Skip(id) {
			continue
		}
		rng := verifCaseRand(id)
		variant, nsec := rng.Intn(3), 1+rng.Intn(3)
		desc := "generated"
		switch id {
		case 0:
			variant, nsec, desc = c06rNeverPruned, 1, "directed: never confirmed, successor rejected, rows deleted, pruned (known finding)"
		case 1:
			variant, nsec, desc = c06rConfirmed, 2, "directed: the renewal is confirmed in the next block"
		case 2:
			variant, nsec, desc = c06rNeverNotPruned, 1, "directed: never confirmed, no prune: the cached roots and the sectors are still there"
		}
		em.BeginCase(id, fmt.Sprintf("%s (variant %d, %d sectors)", desc, variant, nsec))
		t.Run(fmt.Sprintf("case-%d", id), func(t *testing.T) { c06RenewRun(t, em, id, variant, nsec) })
		em.EndCase(true)
	}
}
