//go:build verif

package contracts_test

import (
	"database/sql"
	"encoding/binary"
	"errors"
	"fmt"
	"path/filepath"
	"strings"
	"testing"

	"go.sia.tech/core/types"
	rhp4 "go.sia.tech/coreutils/rhp/v4"
	"go.sia.tech/hostd/v2/host/contracts"
	"go.sia.tech/hostd/v2/index"
	"go.sia.tech/hostd/v2/persist/sqlite"
	"go.uber.org/zap"
)

// TestVerifC06Life replays the lifecycle models behind c06_v1/v2_ends_successful_partial
// (Actions/Liveness.v, Liveness2.v) against the real code at store level: one v1 or v2
// contract in a real sqlite.Store, a generated schedule of mined and reverted blocks that
// meets the theorem's hypotheses (consensus shape, fairness, formation block kept), each
// block applied/reverted through the store's UpdateTx exactly as Manager.UpdateChainState
// does (ApplyContracts then RejectContracts / RevertContracts), then Manager.ProcessActions
// at the new tip.  Recorded per step: the block's content, the contract's row and whether a
// storage proof for it was handed to the pool.  Monitors: the theorem's own conclusion on
// the real rows (never failed while the data is held; successful / renewed once the
// window is over with the formation on chain).
// WP-O: stubs that fail on demand.  fund: wallet.FundTransaction / FundV2Transaction return an error
// (update.go:241,294,345,391,421); pool: AddPoolTransactions / AddV2PoolTransactions refuse the set
// (update.go:248,307,353,404,444).  ProcessActions must survive both, hand nothing to the syncer for
// that action and select the contract again at the next pass.
type c06Fail struct{ fund, pool bool }

type c06FailChain struct {
	c06Chain
	f *c06Fail
}

func (c c06FailChain) AddPoolTransactions(t []types.Transaction) (bool, error) {
	if c.f.pool {
		return false, errors.New("verif: pool refuses")
	}
	return c.c06Chain.AddPoolTransactions(t)
}
func (c c06FailChain) AddV2PoolTransactions(b types.ChainIndex, t []types.V2Transaction) (bool, error) {
	if c.f.pool {
		return false, errors.New("verif: pool refuses")
	}
	return c.c06Chain.AddV2PoolTransactions(b, t)
}

type c06FailWallet struct {
	c06Wallet
	f        *c06Fail
	released *int
}

func (w c06FailWallet) FundTransaction(t *types.Transaction, a types.Currency, u bool) ([]types.Hash256, error) {
	if w.f.fund {
		return nil, errors.New("verif: insufficient balance")
	}
	return w.c06Wallet.FundTransaction(t, a, u)
}
func (w c06FailWallet) FundV2Transaction(t *types.V2Transaction, a types.Currency, u bool) (types.ChainIndex, []int, error) {
	if w.f.fund {
		return types.ChainIndex{}, nil, errors.New("verif: insufficient balance")
	}
	return w.c06Wallet.FundV2Transaction(t, a, u)
}

func TestVerifC06Life(t *testing.T) {
	em := newVerifEmitter(t, "From HostdBase Require Import Base.\nFrom HostdActions Require Import Rows Liveness Liveness2 Liveness2G Liveness1G Liveness2R LivenessCorr.", "lcase", "lcheck")
	defer em.Close()

	renterKey := types.NewPrivateKeyFromSeed(make([]byte, 32)).PublicKey()
	hostKey := types.NewPrivateKeyFromSeed([]byte(strings.Repeat("h", 32))).PublicKey()
	uc := types.UnlockConditions{PublicKeys: []types.UnlockKey{renterKey.UnlockKey(), hostKey.UnlockKey()}, SignaturesRequired: 2}

	n := verifN(100)
	for id := 0; id < n; id++ {
		if em.Skip(id) {
			continue
		}
		rng := verifCaseRand(id)
		dbPath := filepath.Join(t.TempDir(), fmt.Sprintf("c06life_%d.db", id))
		db, err := sqlite.OpenDatabase(dbPath, zap.NewNop())
		if err != nil {
			t.Fatal(err)
		}
		raw, err := sql.Open("sqlite3", "file:"+dbPath+"?mode=ro&_busy_timeout=5000")
		if err != nil {
			t.Fatal(err)
		}
		syncer := &c06Syncer{}
		fail := &c06Fail{}
		cm, err := contracts.NewManager(db, c06Storage{}, c06FailChain{f: fail}, syncer, c06FailWallet{f: fail}, contracts.WithRevisionSubmissionBuffer(2))
		if err != nil {
			t.Fatal(err)
		}
		if err := db.UpdateChainState(func(tx index.UpdateTx) error {
			for h := uint64(0); h < 60; h++ {
				ci := types.ChainIndex{Height: h, ID: c06BlockID(h)}
				if err := tx.AddContractChainIndexElement(types.ChainIndexElement{ID: ci.ID, ChainIndex: ci, StateElement: types.StateElement{LeafIndex: h}}); err != nil {
					return err
				}
			}
			return nil
		}); err != nil {
			t.Fatal(err)
		}

		v2 := id%2 == 1
		ws := uint64(3 + rng.Intn(5))  // window start / proof height
		we := ws + 1 + uint64(rng.Intn(4)) // window end / expiration height
		neg := uint64(rng.Intn(3))
		rb := []uint64{2, 3, 50}[rng.Intn(3)]
		benefit := rng.Intn(4) != 0
		held := rng.Intn(4) != 0
		idxAt := func(h uint64) types.ChainIndex { return types.ChainIndex{Height: h, ID: c06BlockID(h)} }

		var fcid types.FileContractID
		var v2fc types.V2FileContract
		filesize, root := uint64(0), types.Hash256{}
		if !held { // a contract with data of which the host has no sector: the proof cannot be built
			filesize, root = 64, types.Hash256{7}
		}
		if !v2 {
			valid, missed := types.Siacoins(2), types.Siacoins(1)
			if !benefit {
				missed = types.Siacoins(uint32(2 + rng.Intn(2)))
			}
			fc := types.FileContract{WindowStart: ws, WindowEnd: we, RevisionNumber: 1, UnlockHash: uc.UnlockHash(), Filesize: filesize, FileMerkleRoot: root,
				ValidProofOutputs:  []types.SiacoinOutput{{Value: types.Siacoins(5)}, {Value: valid}},
				MissedProofOutputs: []types.SiacoinOutput{{Value: types.Siacoins(5)}, {Value: missed}, {}}}
			formation := types.Transaction{FileContracts: []types.FileContract{fc}, ArbitraryData: [][]byte{[]byte(fmt.Sprintf("life-%d", id))}}
			fcid = formation.FileContractID(0)
			sr := contracts.SignedRevision{Revision: types.FileContractRevision{ParentID: fcid, UnlockConditions: uc, FileContract: fc}}
			if err := db.AddContract(sr, []types.Transaction{formation}, types.Siacoins(1), contracts.Usage{}, neg); err != nil {
				t.Fatal(err)
			}
		} else {
			missed := types.Siacoins(1)
			if !benefit {
				missed = types.Siacoins(uint32(2 + rng.Intn(2)))
			}
			v2fc = types.V2FileContract{ProofHeight: ws, ExpirationHeight: we, RevisionNumber: 2, RenterPublicKey: renterKey, HostPublicKey: hostKey, Filesize: filesize, FileMerkleRoot: root,
				RenterOutput: types.SiacoinOutput{Value: types.Siacoins(5)}, HostOutput: types.SiacoinOutput{Value: types.Siacoins(2)}, MissedHostValue: missed, TotalCollateral: types.Siacoins(1)}
			formation := types.V2Transaction{FileContracts: []types.V2FileContract{v2fc}, ArbitraryData: []byte(fmt.Sprintf("life-%d", id))}
			fcid = formation.V2FileContractID(formation.ID(), 0)
			c := contracts.V2Contract{V2FileContract: v2fc, ID: fcid, NegotiationHeight: neg, Status: contracts.V2ContractStatusPending}
			if err := db.AddV2Contract(c, rhp4.TransactionSet{Transactions: []types.V2Transaction{formation}}); err != nil {
				t.Fatal(err)
			}
		}

		// the best chain as a list of block contents
		type blk struct {
			form                       bool
			formRev                    uint64
			rev                        *uint64
			proof, renew, end          bool // end = v1 missed-proof expiry / v2 expiration
			sent                       bool
		}
		var chain []blk
		formed := func() bool {
			for _, b := range chain {
				if b.form {
					return true
				}
			}
			return false
		}
		resolved := func() bool {
			for _, b := range chain {
				if b.proof || b.renew || b.end {
					return true
				}
			}
			return false
		}
		sentAny := func() bool {
			for _, b := range chain {
				if b.sent {
					return true
				}
			}
			return false
		}
		// revision number known on chain (v1: confirmed revision number, v2: the state element's)
		onChainRev := func(c []blk) (uint64, bool) {
			for i := len(c) - 1; i >= 0; i-- {
				if c[i].rev != nil {
					return *c[i].rev, true
				}
				if c[i].form && v2 {
					return c[i].formRev, true
				}
			}
			return 0, !v2
		}
		changes := func(b blk, revert bool, rest []blk) (sc contracts.StateChanges) {
			revNum := uint64(0)
			if b.rev != nil {
				revNum = *b.rev
				if revert {
					revNum, _ = onChainRev(rest)
				}
			}
			if !v2 {
				if b.form {
					sc.Confirmed = []types.FileContractElement{{ID: fcid}}
				}
				if b.rev != nil {
					sc.Revised = []contracts.RevisedContract{{ID: fcid, FileContract: types.FileContract{RevisionNumber: revNum}}}
				}
				// buildContractState: a valid proof, or an expiry that costs the host nothing, is "successful"
				if b.proof || (b.end && !benefit) {
					sc.Successful = []types.FileContractID{fcid}
				}
				if b.end && benefit {
					sc.Failed = []types.FileContractID{fcid}
				}
				return
			}
			onChain := v2fc
			if b.form {
				onChain.RevisionNumber = b.formRev
				sc.ConfirmedV2 = []types.V2FileContractElement{{ID: fcid, StateElement: types.StateElement{LeafIndex: 1}, V2FileContract: onChain}}
			}
			if b.rev != nil {
				onChain.RevisionNumber = revNum
				sc.RevisedV2 = []contracts.RevisedV2Contract{{ID: fcid, V2FileContract: onChain}}
			}
			if b.proof || (b.end && !benefit) {
				sc.SuccessfulV2 = []types.FileContractID{fcid}
			}
			if b.renew {
				sc.RenewedV2 = []types.FileContractID{fcid}
			}
			if b.end && benefit {
				sc.FailedV2 = []types.FileContractID{fcid}
			}
			return
		}
		crashed := false
		update := func(what string, fn func(tx index.UpdateTx) error) {
			defer func() {
				if r := recover(); r != nil {
					crashed = true
					em.Monitor("lifecycle-update-panics", fmt.Sprintf("%s: %v", what, r))
				}
			}()
			if err := db.UpdateChainState(fn); err != nil {
				crashed = true
				em.Monitor("lifecycle-update-fails", fmt.Sprintf("%s: %v", what, err))
			}
		}
		// ProcessActions at the tip: was a storage proof for the contract handed to the pool?
		// v2 cases (WP-O): what happens after a block is generated too — no pass (a tip inside a
		// batch), or a pass during which the wallet or the pool refuses; recorded for Liveness2G.gstep2
		injected := false // a pass was skipped or made to fail in this case
		pact := "(Pass true 0)"
		choosePass := func(last bool) (run bool) {
			fail.fund, fail.pool = false, false
			pact = "(Pass true 0)"
			switch r := rng.Intn(10); {
			case r < 2 && !last:
				pact, injected = "NoPass", true
				em.Count("pass:none")
				return false
			case r < 4:
				fail.fund, pact, injected = true, "(Pass false 0)", true
				em.Count("pass:fund-fails")
			case r < 5:
				fail.pool, pact, injected = true, "(Pass false 0)", true
				em.Count("pass:pool-refuses")
			default:
				em.Count("pass:good")
			}
			return true
		}
		process := func(h uint64) bool {
			syncer.v1, syncer.v2 = nil, nil
			func() {
				defer func() {
					if r := recover(); r != nil {
						em.Monitor("process-actions-panics", fmt.Sprintf("tip %d fund-fails=%v pool-refuses=%v: %v", h, fail.fund, fail.pool, r))
					}
				}()
				if err := cm.ProcessActions(idxAt(h)); err != nil {
					em.Monitor("process-actions-fails", fmt.Sprintf("tip %d fund-fails=%v pool-refuses=%v: %v", h, fail.fund, fail.pool, err))
				}
			}()
			// an action the wallet could not fund or the pool refused must not be announced (a v2
			// formation needs no funding: it may still be re-broadcast while the wallet is empty)
			for _, set := range syncer.v1 {
				// (tryFormationBroadcast announces a formation set even when the pool refused it; formations need no funding)
				if last := set[len(set)-1]; (fail.pool || fail.fund) && len(last.FileContractRevisions)+len(last.StorageProofs) > 0 {
					em.Monitor("refused-action-broadcast", fmt.Sprintf("tip %d fund-fails=%v pool-refuses=%v: a v1 set of %d transactions was handed to the syncer", h, fail.fund, fail.pool, len(set)))
				}
			}
			for _, set := range syncer.v2 {
				last := set[len(set)-1]
				if fail.pool || (fail.fund && len(last.FileContractRevisions)+len(last.FileContractResolutions) > 0) {
					em.Monitor("refused-action-broadcast", fmt.Sprintf("tip %d fund-fails=%v pool-refuses=%v: a set of %d transactions was handed to the syncer", h, fail.fund, fail.pool, len(set)))
				}
			}
			for _, set := range syncer.v1 {
				last := set[len(set)-1]
				if len(last.StorageProofs) > 0 && last.StorageProofs[0].ParentID == fcid {
					return true
				}
			}
			for _, set := range syncer.v2 {
				last := set[len(set)-1]
				if len(last.FileContractResolutions) > 0 && last.FileContractResolutions[0].Parent.ID == fcid {
					if _, ok := last.FileContractResolutions[0].Resolution.(*types.V2StorageProof); ok {
						return true
					}
				}
			}
			return false
		}
		observe := func(sent bool) string {
			tip := uint64(len(chain))
			if !v2 {
				c, err := db.Contract(fcid)
				if err != nil {
					t.Fatal(err)
				}
				// with injected failures the clause is c06_v1_one_attempt_suffices_partial
				protected1 := held && (!injected || sentAny())
				if protected1 && c.Status == contracts.ContractStatusFailed {
					em.Monitor("contract-with-held-data-failed", fmt.Sprintf("v1 tip %d window %d-%d injected=%v", tip, ws, we, injected))
				}
				if protected1 && formed() && tip >= we && c.Status != contracts.ContractStatusSuccessful {
					em.Monitor("contract-with-held-data-not-successful", fmt.Sprintf("v1 tip %d window %d-%d: %v", tip, ws, we, c.Status))
				}
				em.Count("v1-row:" + c.Status.String())
				return fmt.Sprintf("LRowS %s %v %v %v", c06St1[c.Status], c.FormationConfirmed, c.ResolutionHeight != 0, sent)
			}
			c, err := db.V2Contract(fcid)
			if err != nil {
				t.Fatal(err)
			}
			// with injected failures the clause is c06_v2_one_attempt_suffices_partial: a proof reached the pool on this branch
			protected := held && (!injected || sentAny())
			if protected && c.Status == contracts.V2ContractStatusFailed {
				em.Monitor("contract-with-held-data-failed", fmt.Sprintf("v2 tip %d window %d-%d injected=%v", tip, ws, we, injected))
			}
			if protected && formed() && tip >= we && c.Status != contracts.V2ContractStatusSuccessful && c.Status != contracts.V2ContractStatusRenewed {
				em.Monitor("contract-with-held-data-not-successful", fmt.Sprintf("v2 tip %d window %d-%d: %v", tip, ws, we, c.Status))
			}
			em.Count("v2-row:" + string(c.Status))
			elem := "None"
			var erev []byte
			err = raw.QueryRow(`SELECT cs.revision_number FROM contracts_v2 c INNER JOIN contract_v2_state_elements cs ON (cs.contract_id = c.id) WHERE c.contract_id = ?`, fcid[:]).Scan(&erev)
			if err == nil {
				elem = fmt.Sprintf("(Some %d%%N)", binary.LittleEndian.Uint64(erev))
			} else if err != sql.ErrNoRows {
				t.Fatal(err)
			}
			return fmt.Sprintf("LRow2 %s %v %v %s %v", c06St2[c.Status], c.FormationIndex != (types.ChainIndex{}), c.ResolutionIndex != (types.ChainIndex{}), elem, sent)
		}

		em.BeginCase(id, fmt.Sprintf("lifecycle v2=%v window %d-%d reject buffer %d benefit=%v held=%v", v2, ws, we, rb, benefit, held))
		if !v2 {
			em.Step(fmt.Sprintf("LStart {| p_ws := %d; p_we := %d; p_neg := %d; p_rev0 := 1; p_rb := %d; p_benefit := %v; p_held := %v |}", ws, we, neg, rb, benefit, held), "LNone")
		} else {
			em.Step(fmt.Sprintf("L2Start {| q_ph := %d; q_eh := %d; q_neg := %d; q_rev0 := 2; q_rb := %d; q_benefit := %v; q_held := %v |}", ws, we, neg, rb, benefit, held), "LNone")
		}
		em.Count(fmt.Sprintf("case:v2=%v,benefit=%v,held=%v", v2, benefit, held))

		sawProof := false
		target := we + 1 + uint64(rng.Intn(3)) // run past the window
		formAt := uint64(1 + rng.Intn(int(ws)))  // formation height; sometimes never
		if rng.Intn(8) == 0 {
			formAt = 0
		}
		quiet := !held || (!v2 && !benefit) // no proof will be broadcast: let the window run out more often
		for s := 0; s < 70 && !crashed && uint64(len(chain)) < target; s++ {
			if len(chain) > 0 && !chain[len(chain)-1].form && rng.Intn(5) == 0 {
				// revert the tip block
				b := chain[len(chain)-1]
				rest := chain[:len(chain)-1]
				h := uint64(len(chain))
				update("revert", func(tx index.UpdateTx) error { return tx.RevertContracts(idxAt(h), changes(b, true, rest)) })
				chain = rest
				if crashed {
					break
				}
				sent := false
				run := choosePass(false)
				if len(chain) > 0 {
					if run {
						sent = process(uint64(len(chain)))
					}
					// v2 (Liveness2G.gstep2): the proof handed to the pool at the reverted position stays
					// valid while the block at the proof height stays
					carry := b.sent && h > ws
					chain[len(chain)-1].sent = chain[len(chain)-1].sent || carry || sent
					sent = chain[len(chain)-1].sent
				}
				op := "L1GRevert " + pact
				if v2 {
					op = "LGRevert " + pact
				}
				em.Step(op, observe(sent))
				em.Count("step:revert")
				continue
			}
			h := uint64(len(chain)) + 1
			open := formed() && !resolved()
			var b blk
			switch {
			case !formed() && h <= ws && h >= formAt && formAt > 0:
				b.form, b.formRev = true, uint64(1+rng.Intn(2))
			case open && h == we && (!v2 || sentAny()):
				// v1: consensus resolves the contract in this block; v2 fairness: a broadcast proof is in by now
				if !v2 && !sentAny() && rng.Intn(2) == 0 {
					b.end = true
				} else if v2 && rng.Intn(4) == 0 {
					b.renew = true
				} else {
					b.proof = true
				}
			case open && ((!quiet && rng.Intn(12) == 0) || (quiet && rng.Intn(25) == 0)):
				b.proof = true
			case open && v2 && rng.Intn(20) == 0:
				b.renew = true
			case open && !sentAny() && ((!v2 && h >= we) || (v2 && h > we)) && rng.Intn(2) == 0:
				b.end = true
			}
			if formed() && !b.form && rng.Intn(5) == 0 {
				rv := uint64(1 + rng.Intn(4))
				b.rev = &rv
			}
			update("apply", func(tx index.UpdateTx) error {
				if err := tx.ApplyContracts(idxAt(h), changes(b, false, chain)); err != nil {
					return err
				}
				if h >= rb {
					_, _, err := tx.RejectContracts(h - rb)
					return err
				}
				return nil
			})
			if crashed {
				break
			}
			chain = append(chain, b)
			sent := false
			if choosePass(h+1 >= target) {
				sent = process(h)
			}
			chain[len(chain)-1].sent = sent
			sawProof = sawProof || b.proof
			rv := "None"
			if b.rev != nil {
				rv = fmt.Sprintf("(Some %d%%N)", *b.rev)
			}
			if !v2 {
				em.Step(fmt.Sprintf("L1GMine {| b_form := %v; b_rev := %s; b_proof := %v; b_missed := %v |} %s", b.form, rv, b.proof, b.end, pact), observe(sent))
			} else {
				fr := "None"
				if b.form {
					fr = fmt.Sprintf("(Some %d%%N)", b.formRev)
				}
				em.Step(fmt.Sprintf("LGMine {| d_form := %s; d_rev := %s; d_proof := %v; d_renew := %v; d_expire := %v |} %s", fr, rv, b.proof, b.renew, b.end, pact), observe(sent))
			}
			switch {
			case b.form:
				em.Count("block:formation")
			case b.proof:
				em.Count("block:proof")
			case b.renew:
				em.Count("block:renewal")
			case b.end:
				em.Count("block:expiry")
			default:
				em.Count("block:other")
			}
			if sent {
				em.Count("proof-broadcast")
			}
		}
		em.EndCase(sawProof || resolved())
		raw.Close()
		cm.Close()
		db.Close()
	}
}
