//go:build verif

package contracts_test

// C01 — a v2 contract revised AND renewed in the same block, on a real chain.
//
// Consensus allows a revision and a renewal of one contract to be mined together (the
// renewal's parent is the element in the accumulator, the revision is a separate
// transaction); core's MidState merges both into ONE V2FileContractElementDiff carrying
// Revision and Resolution.  Case 0 connects such a block, case 1 disconnects it again
// (reorg onto an empty fork).  What the store shows afterwards is recorded as the
// StateChanges buildContractState must have produced and compared with Build.build_state
// (check_build); the monitors state the property directly: after the block the contract is
// renewed and its revision confirmed, after the reorg it is active with the revision
// unconfirmed again.

import (
	"context"
	"fmt"
	"testing"

	rhp2 "go.sia.tech/core/rhp/v2"
	proto4 "go.sia.tech/core/rhp/v4"
	"go.sia.tech/core/types"
	rhp4 "go.sia.tech/coreutils/rhp/v4"
	"go.sia.tech/hostd/v2/host/contracts"
	"go.sia.tech/hostd/v2/internal/testutil"
	"go.uber.org/zap"
	"lukechampine.com/frand"
)

func TestVerifC01SameBlock(t *testing.T) {
	em := newVerifEmitter(t, "From HostdBase Require Import Base.\nFrom HostdContracts Require Import Model Build.\nLocal Open Scope N_scope.", "bcase", "check_build")
	defer em.Close()

	log := zap.NewNop()
	renterKey, hostKey := types.GeneratePrivateKey(), types.GeneratePrivateKey()
	network, genesis := testutil.V2Network()
	node := testutil.NewHostNode(t, hostKey, network, genesis, log)
	fork := testutil.NewConsensusNode(t, network, genesis, log)
	testutil.MineAndSync(t, node, node.Wallet.Address(), int(network.MaturityDelay+5))

	result := make(chan error, 1)
	if _, err := node.Volumes.AddVolume(context.Background(), t.TempDir()+"/v.dat", 10, result); err != nil {
		t.Fatal(err)
	} else if err := <-result; err != nil {
		t.Fatal(err)
	}

	contractID, fc := formV2Contract(t, node.Chain, node.Contracts, node.Wallet, node.Syncer, renterKey, hostKey, types.Siacoins(10), types.Siacoins(20), 20, true)
	testutil.MineAndSync(t, node, types.VoidAddress, 1)
	if c, err := node.Contracts.V2Contract(contractID); err != nil {
		t.Fatal(err)
	} else if c.Status != contracts.V2ContractStatusActive || !c.RevisionConfirmed {
		t.Fatalf("setup: contract not confirmed: %v %v", c.Status, c.RevisionConfirmed)
	}

	// an off-chain revision (number 1)
	var sector [rhp2.SectorSize]byte
	frand.Read(sector[:])
	root := rhp2.SectorRoot(&sector)
	roots := []types.Hash256{root}
	if err := node.Volumes.Write(root, &sector); err != nil {
		t.Fatal(err)
	}
	fc.Filesize = proto4.SectorSize
	fc.Capacity = proto4.SectorSize
	fc.FileMerkleRoot = proto4.MetaRoot(roots)
	fc.RevisionNumber++
	cost, collateral := types.Siacoins(1), types.Siacoins(2)
	fc.RenterOutput.Value = fc.RenterOutput.Value.Sub(cost)
	fc.HostOutput.Value = fc.HostOutput.Value.Add(cost)
	fc.MissedHostValue = fc.MissedHostValue.Sub(collateral)
	sigHash := node.Chain.TipState().ContractSigHash(fc)
	fc.HostSignature = hostKey.SignHash(sigHash)
	fc.RenterSignature = renterKey.SignHash(sigHash)
	if err := node.Contracts.ReviseV2Contract(contractID, fc, roots, proto4.Usage{Storage: cost, RiskedCollateral: collateral}); err != nil {
		t.Fatal(err)
	}
	if c, _ := node.Contracts.V2Contract(contractID); c.RevisionConfirmed {
		t.Fatal("setup: the new revision cannot be confirmed yet")
	}

	// the fork node follows the shared chain up to here
	forkHeight := node.Chain.Tip().Height
	var shared []types.Block
	for h := uint64(1); h <= forkHeight; h++ {
		index, _ := node.Chain.BestIndex(h)
		b, ok := node.Chain.Block(index.ID)
		if !ok {
			t.Fatalf("missing block at height %d", h)
		}
		shared = append(shared, b)
	}
	if err := fork.Chain.AddBlocks(shared); err != nil {
		t.Fatal(err)
	}

	cm, com := node.Chain, node.Contracts
	cs := cm.TipState()
	basis0, fce, err := com.V2FileContractElement(contractID)
	if err != nil {
		t.Fatal(err)
	}
	// the revision is broadcast ...
	revTxn := types.V2Transaction{FileContractRevisions: []types.V2FileContractRevision{{Parent: fce.Copy(), Revision: fc}}}
	if _, err := cm.AddV2PoolTransactions(basis0, []types.V2Transaction{revTxn}); err != nil {
		t.Fatal("failed to add revision to pool:", err)
	}
	// ... and so is a renewal of the same contract
	additionalCollateral := types.Siacoins(2)
	renewal := types.V2FileContractRenewal{
		NewContract: types.V2FileContract{
			Filesize: fc.Filesize, Capacity: fc.Capacity, FileMerkleRoot: fc.FileMerkleRoot,
			ProofHeight: fc.ProofHeight + 10, ExpirationHeight: fc.ExpirationHeight + 10,
			RenterOutput:    fc.RenterOutput,
			HostOutput:      types.SiacoinOutput{Address: fc.HostOutput.Address, Value: fc.HostOutput.Value.Add(additionalCollateral)},
			MissedHostValue: fc.MissedHostValue.Add(additionalCollateral),
			TotalCollateral: fc.TotalCollateral.Add(additionalCollateral),
			RenterPublicKey: renterKey.PublicKey(), HostPublicKey: hostKey.PublicKey(),
		},
		HostRollover: fc.HostOutput.Value, RenterRollover: fc.RenterOutput.Value,
	}
	renewalSigHash := cs.RenewalSigHash(renewal)
	renewal.HostSignature = hostKey.SignHash(renewalSigHash)
	renewal.RenterSignature = renterKey.SignHash(renewalSigHash)
	contractSigHash := cs.ContractSigHash(renewal.NewContract)
	renewal.NewContract.HostSignature = hostKey.SignHash(contractSigHash)
	renewal.NewContract.RenterSignature = renterKey.SignHash(contractSigHash)
	fundAmount := cs.V2FileContractTax(renewal.NewContract).Add(additionalCollateral)
	setupTxn := types.V2Transaction{SiacoinOutputs: []types.SiacoinOutput{{Value: fundAmount, Address: fc.HostOutput.Address}}}
	basis, toSign, err := node.Wallet.FundV2Transaction(&setupTxn, fundAmount, false)
	if err != nil {
		t.Fatal(err)
	}
	node.Wallet.SignV2Inputs(&setupTxn, toSign)
	renewalTxn := types.V2Transaction{
		SiacoinInputs:           []types.V2SiacoinInput{{Parent: setupTxn.EphemeralSiacoinOutput(0)}},
		FileContractResolutions: []types.V2FileContractResolution{{Parent: fce.Copy(), Resolution: &renewal}},
	}
	node.Wallet.SignV2Inputs(&renewalTxn, []int{0})
	renewalTxnSet := rhp4.TransactionSet{Basis: basis, Transactions: []types.V2Transaction{setupTxn, renewalTxn}}
	if _, err := cm.AddV2PoolTransactions(renewalTxnSet.Basis, renewalTxnSet.Transactions); err != nil {
		t.Fatal("failed to add renewal to pool:", err)
	}
	if err := com.RenewV2Contract(renewalTxnSet, proto4.Usage{RiskedCollateral: renewal.NewContract.TotalCollateral.Sub(renewal.NewContract.MissedHostValue)}); err != nil {
		t.Fatal(err)
	}

	// what the store shows, as the StateChanges of a single diff of contract 1
	changes := func(revNum uint64) string {
		c, err := com.V2Contract(contractID)
		if err != nil {
			t.Fatal(err)
		}
		var revised, renewed []string
		// the confirmed revision number is the stored element's; RevisionConfirmed says whether it is the latest (1)
		if (revNum == 1) == c.RevisionConfirmed {
			revised = append(revised, fmt.Sprintf("(1, %d)", revNum))
		}
		if (revNum == 1) == (c.Status == contracts.V2ContractStatusRenewed) {
			renewed = append(renewed, "1")
		}
		return fmt.Sprintf("(Some (mkCh [] [] [] [] [] %s [] %s []))", coqList(revised), coqList(renewed))
	}

	// case 0: one block carries both
	if !em.Skip(0) {
		oldTip := cm.Tip()
		testutil.MineAndSync(t, node, types.VoidAddress, 1)
		if n := len(cm.V2PoolTransactions()); n != 0 {
			t.Fatalf("setup: %d transactions left in the pool", n)
		}
		c, err := com.V2Contract(contractID)
		if err != nil {
			t.Fatal(err)
		}
		em.curDesc = "revision and renewal of one v2 contract connected in one block"
		em.FunCase(0, "(false, [], [mkFD2 1 true false 0 (Some 1) (Some KRenewal)])", changes(1), true)
		em.Count("same-block:apply")
		if c.Status != contracts.V2ContractStatusRenewed || !c.RevisionConfirmed {
			em.Monitor("same-block-revision-and-resolution-not-both-recorded",
				fmt.Sprintf("block %v revises and renews %v: status %v (want renewed), revision confirmed %v (want true)", oldTip.Height+1, contractID, c.Status, c.RevisionConfirmed))
		}
		if nc, err := com.V2Contract(contractID.V2RenewalID()); err != nil || nc.Status != contracts.V2ContractStatusActive {
			em.Monitor("same-block-renewal-successor-not-active", fmt.Sprintf("%v %v", nc.Status, err))
		}
	}

	// case 1: that block is disconnected (the fork has empty blocks)
	if !em.Skip(1) && !em.Skip(0) {
		testutil.MineBlocks(t, fork, types.VoidAddress, 2)
		var alt []types.Block
		for h := forkHeight + 1; h <= fork.Chain.Tip().Height; h++ {
			index, _ := fork.Chain.BestIndex(h)
			b, _ := fork.Chain.Block(index.ID)
			alt = append(alt, b)
		}
		if err := cm.AddBlocks(alt); err != nil {
			t.Fatal(err)
		}
		testutil.WaitForSync(t, node.Chain, node.Indexer)
		if cm.Tip() != fork.Chain.Tip() {
			t.Fatalf("setup: no reorg: %v != %v", cm.Tip(), fork.Chain.Tip())
		}
		c, err := com.V2Contract(contractID)
		if err != nil {
			t.Fatal(err)
		}
		em.curDesc = "the block revising and renewing one v2 contract disconnected"
		em.FunCase(1, "(true, [], [mkFD2 1 true false 0 (Some 1) (Some KRenewal)])", changes(0), true)
		em.Count("same-block:revert")
		if c.Status != contracts.V2ContractStatusActive || c.RevisionConfirmed {
			em.Monitor("same-block-revision-and-resolution-revert-not-undone",
				fmt.Sprintf("status %v (want active), revision confirmed %v (want false)", c.Status, c.RevisionConfirmed))
		}
	}
}
