//go:build verif

package contracts_test

// C01 — several changes of one contract in one block, on a real chain.
//
// Cases 0/1: a v2 contract revised AND renewed in the same block.
// Consensus allows a revision and a renewal of one contract to be mined together (the
// renewal's parent is the element in the accumulator, the revision is a separate
// transaction); core's MidState merges both into ONE V2FileContractElementDiff carrying
// Revision and Resolution.  Case 0 connects such a block, case 1 disconnects it again
// (reorg onto an empty fork).  What the store shows afterwards is recorded as the
// StateChanges buildContractState must have produced and compared with Build.build_state
// (check_build); the monitors state the property directly: after the block the contract is
// renewed and its revision confirmed, after the reorg it is active with the revision
// unconfirmed again.
//
// Cases 2/3: a v1 contract formed AND revised in the same block (the formation transaction and
// the host's latest revision, number 1, are both in the pool when the block is mined).  core
// folds the revision into the CREATED element (Created = true, the element's contract is the
// revised one, Revision = nil).  Case 2 connects the block: the contract is active and its
// revision — which is on chain — is reported confirmed (otherwise the host broadcasts it again).
// Case 3 disconnects it: unconfirmed, revision unconfirmed.
//
// Cases 4/5: a v1 contract revised AND proven in the same block.  Consensus allows that in exactly
// one block, the one at the height of the window start (a revision needs childHeight <=
// WindowStart, a storage proof childHeight >= WindowStart), when somebody submits the proof one
// block before the host does (the contract here is empty, so anybody can).  core merges both into
// one diff (Revision != nil, Resolved).  Case 4 connects the block: the contract is successful
// and the revision confirmed (before fixes/C01-v1-revised-and-proven-same-block.patch the proof
// was dropped and the contract stayed active for good).  Case 5 disconnects it: the contract is
// active again — but core has overwritten the diff's element with the REVISED contract
// (resolveFileContractElement), so the revision number the chain held before the block is not
// in the diff and the host keeps reporting the reverted revision as confirmed: a recorded
// finding (v1-revision-and-proof-same-block-revert-keeps-revision), not repairable inside hostd.
//
// Cases 6/7: a v1 contract formed AND proven in the same block.  The RHP validators bound the
// window start against the height of the negotiation, consensus against the height of the block
// that confirms the formation: a formation set nobody mines until the block at the window start
// is confirmed together with a storage proof of the (empty) contract.  core's diff has Created
// and Resolved set.  Case 6 connects the block: the contract is successful, resolved at that
// height, nothing active or locked in the metrics (before
// fixes/C01-v1-created-and-resolved-same-block.patch: active for good).  Case 7 disconnects it:
// unconfirmed again (RevertContracts undoes the formation last).

import (
	"context"
	"fmt"
	"testing"
	"time"

	rhp2 "go.sia.tech/core/rhp/v2"
	proto4 "go.sia.tech/core/rhp/v4"
	"go.sia.tech/core/types"
	rhp4 "go.sia.tech/coreutils/rhp/v4"
	"go.sia.tech/hostd/v2/host/contracts"
	"go.sia.tech/hostd/v2/internal/testutil"
	"go.uber.org/zap"
	"lukechampine.com/frand"
)

func TestVerifC01SameBlock(t *testing.T) {
	em := newVerifEmitter(t, "From HostdBase Require Import Base.\nFrom HostdContracts Require Import Model Build.\nLocal Open Scope N_scope.", "bcase", "check_build")
	defer em.Close()

	log := zap.NewNop()
	renterKey, hostKey := types.GeneratePrivateKey(), types.GeneratePrivateKey()
	network, genesis := testutil.V2Network()
	node := testutil.NewHostNode(t, hostKey, network, genesis, log)
	fork := testutil.NewConsensusNode(t, network, genesis, log)
	testutil.MineAndSync(t, node, node.Wallet.Address(), int(network.MaturityDelay+5))

	result := make(chan error, 1)
	if _, err := node.Volumes.AddVolume(context.Background(), t.TempDir()+"/v.dat", 10, result); err != nil {
		t.Fatal(err)
	} else if err := <-result; err != nil {
		t.Fatal(err)
	}

	contractID, fc := formV2Contract(t, node.Chain, node.Contracts, node.Wallet, node.Syncer, renterKey, hostKey, types.Siacoins(10), types.Siacoins(20), 20, true)
	testutil.MineAndSync(t, node, types.VoidAddress, 1)
	if c, err := node.Contracts.V2Contract(contractID); err != nil {
		t.Fatal(err)
	} else if c.Status != contracts.V2ContractStatusActive || !c.RevisionConfirmed {
		t.Fatalf("setup: contract not confirmed: %v %v", c.Status, c.RevisionConfirmed)
	}

	// an off-chain revision (number 1)
	var sector [rhp2.SectorSize]byte
	frand.Read(sector[:])
	root := rhp2.SectorRoot(&sector)
	roots := []types.Hash256{root}
	if err := node.Volumes.Write(root, &sector); err != nil {
		t.Fatal(err)
	}
	fc.Filesize = proto4.SectorSize
	fc.Capacity = proto4.SectorSize
	fc.FileMerkleRoot = proto4.MetaRoot(roots)
	fc.RevisionNumber++
	cost, collateral := types.Siacoins(1), types.Siacoins(2)
	fc.RenterOutput.Value = fc.RenterOutput.Value.Sub(cost)
	fc.HostOutput.Value = fc.HostOutput.Value.Add(cost)
	fc.MissedHostValue = fc.MissedHostValue.Sub(collateral)
	sigHash := node.Chain.TipState().ContractSigHash(fc)
	fc.HostSignature = hostKey.SignHash(sigHash)
	fc.RenterSignature = renterKey.SignHash(sigHash)
	if err := node.Contracts.ReviseV2Contract(contractID, fc, roots, proto4.Usage{Storage: cost, RiskedCollateral: collateral}); err != nil {
		t.Fatal(err)
	}
	if c, _ := node.Contracts.V2Contract(contractID); c.RevisionConfirmed {
		t.Fatal("setup: the new revision cannot be confirmed yet")
	}

	// the fork node follows the shared chain up to here
	forkHeight := node.Chain.Tip().Height
	var shared []types.Block
	for h := uint64(1); h <= forkHeight; h++ {
		index, _ := node.Chain.BestIndex(h)
		b, ok := node.Chain.Block(index.ID)
		if !ok {
			t.Fatalf("missing block at height %d", h)
		}
		shared = append(shared, b)
	}
	if err := fork.Chain.AddBlocks(shared); err != nil {
		t.Fatal(err)
	}

	cm, com := node.Chain, node.Contracts
	cs := cm.TipState()
	basis0, fce, err := com.V2FileContractElement(contractID)
	if err != nil {
		t.Fatal(err)
	}
	// the revision is broadcast ...
	revTxn := types.V2Transaction{FileContractRevisions: []types.V2FileContractRevision{{Parent: fce.Copy(), Revision: fc}}}
	if _, err := cm.AddV2PoolTransactions(basis0, []types.V2Transaction{revTxn}); err != nil {
		t.Fatal("failed to add revision to pool:", err)
	}
	// ... and so is a renewal of the same contract
	additionalCollateral := types.Siacoins(2)
	renewal := types.V2FileContractRenewal{
		NewContract: types.V2FileContract{
			Filesize: fc.Filesize, Capacity: fc.Capacity, FileMerkleRoot: fc.FileMerkleRoot,
			ProofHeight: fc.ProofHeight + 10, ExpirationHeight: fc.ExpirationHeight + 10,
			RenterOutput:    fc.RenterOutput,
			HostOutput:      types.SiacoinOutput{Address: fc.HostOutput.Address, Value: fc.HostOutput.Value.Add(additionalCollateral)},
			MissedHostValue: fc.MissedHostValue.Add(additionalCollateral),
			TotalCollateral: fc.TotalCollateral.Add(additionalCollateral),
			RenterPublicKey: renterKey.PublicKey(), HostPublicKey: hostKey.PublicKey(),
		},
		HostRollover: fc.HostOutput.Value, RenterRollover: fc.RenterOutput.Value,
	}
	renewalSigHash := cs.RenewalSigHash(renewal)
	renewal.HostSignature = hostKey.SignHash(renewalSigHash)
	renewal.RenterSignature = renterKey.SignHash(renewalSigHash)
	contractSigHash := cs.ContractSigHash(renewal.NewContract)
	renewal.NewContract.HostSignature = hostKey.SignHash(contractSigHash)
	renewal.NewContract.RenterSignature = renterKey.SignHash(contractSigHash)
	fundAmount := cs.V2FileContractTax(renewal.NewContract).Add(additionalCollateral)
	setupTxn := types.V2Transaction{SiacoinOutputs: []types.SiacoinOutput{{Value: fundAmount, Address: fc.HostOutput.Address}}}
	basis, toSign, err := node.Wallet.FundV2Transaction(&setupTxn, fundAmount, false)
	if err != nil {
		t.Fatal(err)
	}
	node.Wallet.SignV2Inputs(&setupTxn, toSign)
	renewalTxn := types.V2Transaction{
		SiacoinInputs:           []types.V2SiacoinInput{{Parent: setupTxn.EphemeralSiacoinOutput(0)}},
		FileContractResolutions: []types.V2FileContractResolution{{Parent: fce.Copy(), Resolution: &renewal}},
	}
	node.Wallet.SignV2Inputs(&renewalTxn, []int{0})
	renewalTxnSet := rhp4.TransactionSet{Basis: basis, Transactions: []types.V2Transaction{setupTxn, renewalTxn}}
	if _, err := cm.AddV2PoolTransactions(renewalTxnSet.Basis, renewalTxnSet.Transactions); err != nil {
		t.Fatal("failed to add renewal to pool:", err)
	}
	if err := com.RenewV2Contract(renewalTxnSet, proto4.Usage{RiskedCollateral: renewal.NewContract.TotalCollateral.Sub(renewal.NewContract.MissedHostValue)}); err != nil {
		t.Fatal(err)
	}

	// what the store shows, as the StateChanges of a single diff of contract 1
	changes := func(revNum uint64) string {
		c, err := com.V2Contract(contractID)
		if err != nil {
			t.Fatal(err)
		}
		var revised, renewed []string
		// the confirmed revision number is the stored element's; RevisionConfirmed says whether it is the latest (1)
		if (revNum == 1) == c.RevisionConfirmed {
			revised = append(revised, fmt.Sprintf("(1, %d)", revNum))
		}
		if (revNum == 1) == (c.Status == contracts.V2ContractStatusRenewed) {
			renewed = append(renewed, "1")
		}
		return fmt.Sprintf("(Some (mkCh [] [] [] [] [] %s [] %s []))", coqList(revised), coqList(renewed))
	}

	// case 0: one block carries both
	if !em.Skip(0) {
		oldTip := cm.Tip()
		testutil.MineAndSync(t, node, types.VoidAddress, 1)
		if n := len(cm.V2PoolTransactions()); n != 0 {
			t.Fatalf("setup: %d transactions left in the pool", n)
		}
		c, err := com.V2Contract(contractID)
		if err != nil {
			t.Fatal(err)
		}
		em.curDesc = "revision and renewal of one v2 contract connected in one block"
		em.FunCase(0, "(false, [], [mkFD2 1 true false 0 (Some 1) (Some KRenewal)])", changes(1), true)
		em.Count("same-block:apply")
		if c.Status != contracts.V2ContractStatusRenewed || !c.RevisionConfirmed {
			em.Monitor("same-block-revision-and-resolution-not-both-recorded",
				fmt.Sprintf("block %v revises and renews %v: status %v (want renewed), revision confirmed %v (want true)", oldTip.Height+1, contractID, c.Status, c.RevisionConfirmed))
		}
		if nc, err := com.V2Contract(contractID.V2RenewalID()); err != nil || nc.Status != contracts.V2ContractStatusActive {
			em.Monitor("same-block-renewal-successor-not-active", fmt.Sprintf("%v %v", nc.Status, err))
		}
	}

	// case 1: that block is disconnected (the fork has empty blocks)
	if !em.Skip(1) && !em.Skip(0) {
		testutil.MineBlocks(t, fork, types.VoidAddress, 2)
		var alt []types.Block
		for h := forkHeight + 1; h <= fork.Chain.Tip().Height; h++ {
			index, _ := fork.Chain.BestIndex(h)
			b, _ := fork.Chain.Block(index.ID)
			alt = append(alt, b)
		}
		if err := cm.AddBlocks(alt); err != nil {
			t.Fatal(err)
		}
		testutil.WaitForSync(t, node.Chain, node.Indexer)
		if cm.Tip() != fork.Chain.Tip() {
			t.Fatalf("setup: no reorg: %v != %v", cm.Tip(), fork.Chain.Tip())
		}
		c, err := com.V2Contract(contractID)
		if err != nil {
			t.Fatal(err)
		}
		em.curDesc = "the block revising and renewing one v2 contract disconnected"
		em.FunCase(1, "(true, [], [mkFD2 1 true false 0 (Some 1) (Some KRenewal)])", changes(0), true)
		em.Count("same-block:revert")
		if c.Status != contracts.V2ContractStatusActive || c.RevisionConfirmed {
			em.Monitor("same-block-revision-and-resolution-revert-not-undone",
				fmt.Sprintf("status %v (want active), revision confirmed %v (want false)", c.Status, c.RevisionConfirmed))
		}
	}
	vfSameBlockV1(t, em, log)
	vfSameBlockV1Proof(t, em, log)
	vfSameBlockV1FormProof(t, em, log)
}

// vfSameBlockV1: cases 2 and 3 on a v1 network
func vfSameBlockV1(t *testing.T, em *verifEmitter, log *zap.Logger) {
	if em.Skip(2) && em.Skip(3) {
		return
	}
	renterKey, hostKey := types.GeneratePrivateKey(), types.GeneratePrivateKey()
	network, genesis := testutil.V1Network()
	node := testutil.NewHostNode(t, hostKey, network, genesis, log)
	fork := testutil.NewConsensusNode(t, network, genesis, log)
	testutil.MineAndSync(t, node, node.Wallet.Address(), int(network.MaturityDelay+5))
	cm, com := node.Chain, node.Contracts

	// the fork node follows the shared chain up to here
	forkHeight := cm.Tip().Height
	var shared []types.Block
	for h := uint64(1); h <= forkHeight; h++ {
		index, _ := cm.BestIndex(h)
		b, ok := cm.Block(index.ID)
		if !ok {
			t.Fatalf("missing block at height %d", h)
		}
		shared = append(shared, b)
	}
	if err := fork.Chain.AddBlocks(shared); err != nil {
		t.Fatal(err)
	}

	// the formation transaction goes to the pool; the host's latest revision is number 1 ...
	rev := formContract(t, cm, com, node.Wallet, node.Syncer, node.Settings, renterKey, hostKey, types.Siacoins(10), types.Siacoins(20), 20, true)
	contractID := rev.Revision.ParentID
	// ... and is broadcast right away (by the renter, say)
	revisionTxn := types.Transaction{
		FileContractRevisions: []types.FileContractRevision{rev.Revision},
		Signatures:            rev.Signatures(),
	}
	fee := types.Siacoins(1)
	revisionTxn.MinerFees = append(revisionTxn.MinerFees, fee)
	toSign, err := node.Wallet.FundTransaction(&revisionTxn, fee, true)
	if err != nil {
		t.Fatal(err)
	}
	node.Wallet.SignTransaction(&revisionTxn, toSign, types.CoveredFields{WholeTransaction: true})
	if _, err := cm.AddPoolTransactions(append(cm.UnconfirmedParents(revisionTxn), revisionTxn)); err != nil {
		t.Fatal("failed to add revision to pool:", err)
	}

	// what the store shows, as the StateChanges of the single created diff of contract 1 (element
	// revision 1): confirmed / revised to the revision number the direction records
	changes := func(revert bool) string {
		c, err := com.Contract(contractID)
		if err != nil {
			t.Fatal(err)
		}
		var confirmed, revised []string
		if c.FormationConfirmed != revert {
			confirmed = append(confirmed, "1")
		}
		// the stored revision is number 1: reported confirmed iff the confirmed revision number is 1
		if !revert && c.RevisionConfirmed {
			revised = append(revised, "(1, 1)")
		} else if revert && !c.RevisionConfirmed {
			revised = append(revised, "(1, 0)")
		}
		return fmt.Sprintf("(Some (mkCh %s %s [] [] [] [] [] [] []))", coqList(confirmed), coqList(revised))
	}

	// case 2: one block carries the formation and the revision
	if !em.Skip(2) {
		oldTip := cm.Tip()
		testutil.MineAndSync(t, node, types.VoidAddress, 1)
		if n := len(cm.PoolTransactions()); n != 0 {
			t.Fatalf("setup: %d transactions left in the pool", n)
		}
		c, err := com.Contract(contractID)
		if err != nil {
			t.Fatal(err)
		}
		em.curDesc = "formation and revision of one v1 contract connected in one block"
		em.FunCase(2, "(false, [mkFD 1 true true 1 None false false false], [])", changes(false), true)
		em.Count("same-block:v1-formation+revision:apply")
		if c.Status != contracts.ContractStatusActive || !c.FormationConfirmed || !c.RevisionConfirmed {
			em.Monitor("same-block-formation-and-revision-not-both-recorded",
				fmt.Sprintf("block %v forms %v and confirms its revision %d: status %v formation confirmed %v (want active, true), revision confirmed %v (want true)",
					oldTip.Height+1, contractID, rev.Revision.RevisionNumber, c.Status, c.FormationConfirmed, c.RevisionConfirmed))
		}
	}

	// case 3: that block is disconnected (the fork has empty blocks)
	if !em.Skip(3) && !em.Skip(2) {
		testutil.MineBlocks(t, fork, types.VoidAddress, 2)
		var alt []types.Block
		for h := forkHeight + 1; h <= fork.Chain.Tip().Height; h++ {
			index, _ := fork.Chain.BestIndex(h)
			b, _ := fork.Chain.Block(index.ID)
			alt = append(alt, b)
		}
		if err := cm.AddBlocks(alt); err != nil {
			t.Fatal(err)
		}
		testutil.WaitForSync(t, node.Chain, node.Indexer)
		if cm.Tip() != fork.Chain.Tip() {
			t.Fatalf("setup: no reorg: %v != %v", cm.Tip(), fork.Chain.Tip())
		}
		c, err := com.Contract(contractID)
		if err != nil {
			t.Fatal(err)
		}
		em.curDesc = "the block forming and revising one v1 contract disconnected"
		em.FunCase(3, "(true, [mkFD 1 true true 1 None false false false], [])", changes(true), true)
		em.Count("same-block:v1-formation+revision:revert")
		if c.FormationConfirmed || c.RevisionConfirmed || (c.Status != contracts.ContractStatusPending && c.Status != contracts.ContractStatusRejected) {
			em.Monitor("same-block-formation-and-revision-revert-not-undone",
				fmt.Sprintf("status %v (want pending), formation confirmed %v (want false), revision confirmed %v (want false)", c.Status, c.FormationConfirmed, c.RevisionConfirmed))
		}
	}
}

// vfSameBlockV1Proof: cases 4 and 5 on a v1 network
func vfSameBlockV1Proof(t *testing.T, em *verifEmitter, log *zap.Logger) {
	if em.Skip(4) && em.Skip(5) {
		return
	}
	renterKey, hostKey := types.GeneratePrivateKey(), types.GeneratePrivateKey()
	network, genesis := testutil.V1Network()
	node := testutil.NewHostNode(t, hostKey, network, genesis, log)
	fork := testutil.NewConsensusNode(t, network, genesis, log)
	testutil.MineAndSync(t, node, node.Wallet.Address(), int(network.MaturityDelay+5))
	cm, com := node.Chain, node.Contracts

	rev := formContract(t, cm, com, node.Wallet, node.Syncer, node.Settings, renterKey, hostKey, types.Siacoins(10), types.Siacoins(20), 20, true)
	contractID := rev.Revision.ParentID
	testutil.MineAndSync(t, node, types.VoidAddress, 1)
	if c, err := com.Contract(contractID); err != nil {
		t.Fatal(err)
	} else if c.Status != contracts.ContractStatusActive {
		t.Fatalf("setup: contract not confirmed: %v", c.Status)
	}
	// the host's latest revision is number 2 (the chain has the formation, revision 0)
	rev.Revision.RevisionNumber = 2
	sigHash := hashRevision(rev.Revision)
	rev.HostSignature = hostKey.SignHash(sigHash)
	rev.RenterSignature = renterKey.SignHash(sigHash)
	updater, err := com.ReviseContract(contractID)
	if err != nil {
		t.Fatal(err)
	}
	if err := updater.Commit(rev, contracts.Usage{}); err != nil {
		t.Fatal(err)
	}
	updater.Close()

	// empty blocks up to the block before the window start: whatever the host broadcasts in the
	// meantime stays in the pool
	ws := rev.Revision.WindowStart
	for cm.Tip().Height < ws-1 {
		if err := cm.AddBlocks([]types.Block{mineEmptyBlock(cm.TipState(), types.VoidAddress)}); err != nil {
			t.Fatal(err)
		}
		testutil.WaitForSync(t, node.Chain, node.Indexer)
	}
	forkHeight := cm.Tip().Height
	var shared []types.Block
	for h := uint64(1); h <= forkHeight; h++ {
		index, _ := cm.BestIndex(h)
		b, ok := cm.Block(index.ID)
		if !ok {
			t.Fatalf("missing block at height %d", h)
		}
		shared = append(shared, b)
	}
	if err := fork.Chain.AddBlocks(shared); err != nil {
		t.Fatal(err)
	}

	// the revision is in the pool (the host broadcasts it when the window comes close; otherwise
	// it is broadcast here) ...
	inPool := false
	for _, txn := range cm.PoolTransactions() {
		for _, fcr := range txn.FileContractRevisions {
			inPool = inPool || fcr.ParentID == contractID
		}
	}
	if !inPool {
		revisionTxn := types.Transaction{FileContractRevisions: []types.FileContractRevision{rev.Revision}, Signatures: rev.Signatures()}
		fee := types.Siacoins(1)
		revisionTxn.MinerFees = append(revisionTxn.MinerFees, fee)
		toSign, err := node.Wallet.FundTransaction(&revisionTxn, fee, true)
		if err != nil {
			t.Fatal(err)
		}
		node.Wallet.SignTransaction(&revisionTxn, toSign, types.CoveredFields{WholeTransaction: true})
		if _, err := cm.AddPoolTransactions(append(cm.UnconfirmedParents(revisionTxn), revisionTxn)); err != nil {
			t.Fatal("failed to add revision to pool:", err)
		}
	}
	em.Count(fmt.Sprintf("same-block:v1-revision+proof:revision-broadcast-by-host=%v", inPool))
	// ... and so is a storage proof, one block before the host would submit its own
	proofTxn := types.Transaction{StorageProofs: []types.StorageProof{{ParentID: contractID}}}
	if _, err := cm.AddPoolTransactions([]types.Transaction{proofTxn}); err != nil {
		t.Fatal("failed to add storage proof to pool:", err)
	}

	// what the store shows, as the StateChanges of the single diff of contract 1.  The diff core
	// produces carries the REVISED contract as its element (revision 2) next to Revision = 2.
	changes := func(revert bool) string {
		c, err := com.Contract(contractID)
		if err != nil {
			t.Fatal(err)
		}
		var revised, successful []string
		if c.RevisionConfirmed { // the stored revision is number 2
			revised = append(revised, "(1, 2)")
		}
		if (c.Status == contracts.ContractStatusSuccessful) != revert {
			successful = append(successful, "1")
		}
		return fmt.Sprintf("(Some (mkCh [] %s %s [] [] [] [] [] []))", coqList(revised), coqList(successful))
	}

	// case 4: the block at the height of the window start carries the revision and the proof
	if !em.Skip(4) {
		testutil.MineAndSync(t, node, types.VoidAddress, 1)
		if n := len(cm.PoolTransactions()); n != 0 {
			t.Fatalf("setup: %d transactions left in the pool", n)
		}
		c, err := com.Contract(contractID)
		if err != nil {
			t.Fatal(err)
		}
		em.curDesc = "revision and storage proof of one v1 contract connected in one block"
		em.FunCase(4, "(false, [mkFD 1 true false 2 (Some 2) true true false], [])", changes(false), true)
		em.Count("same-block:v1-revision+proof:apply")
		if c.Status != contracts.ContractStatusSuccessful || !c.RevisionConfirmed || c.ResolutionHeight != ws {
			em.Monitor("same-block-v1-revision-and-proof-not-both-recorded",
				fmt.Sprintf("block %d revises and proves %v: status %v (want successful), revision confirmed %v (want true), resolution height %d (want %d)",
					ws, contractID, c.Status, c.RevisionConfirmed, c.ResolutionHeight, ws))
		}
	}

	// case 5: that block is disconnected (the fork has empty blocks)
	if !em.Skip(5) && !em.Skip(4) {
		testutil.MineBlocks(t, fork, types.VoidAddress, 2)
		var alt []types.Block
		for h := forkHeight + 1; h <= fork.Chain.Tip().Height; h++ {
			index, _ := fork.Chain.BestIndex(h)
			b, _ := fork.Chain.Block(index.ID)
			alt = append(alt, b)
		}
		if err := cm.AddBlocks(alt); err != nil {
			t.Fatal(err)
		}
		testutil.WaitForSync(t, node.Chain, node.Indexer)
		if cm.Tip() != fork.Chain.Tip() {
			t.Fatalf("setup: no reorg: %v != %v", cm.Tip(), fork.Chain.Tip())
		}
		c, err := com.Contract(contractID)
		if err != nil {
			t.Fatal(err)
		}
		em.curDesc = "the block revising and proving one v1 contract disconnected"
		em.FunCase(5, "(true, [mkFD 1 true false 2 (Some 2) true true false], [])", changes(true), true)
		em.Count("same-block:v1-revision+proof:revert")
		if c.Status != contracts.ContractStatusActive || c.ResolutionHeight != 0 {
			em.Monitor("same-block-v1-revision-and-proof-revert-not-undone",
				fmt.Sprintf("status %v (want active), resolution height %d (want 0)", c.Status, c.ResolutionHeight))
		} else if c.RevisionConfirmed {
			em.Monitor("v1-revision-and-proof-same-block-revert-keeps-revision",
				fmt.Sprintf("the block revising %v to revision 2 and proving it was disconnected, the best chain holds revision 0: revision confirmed %v (want false)", contractID, c.RevisionConfirmed))
		}
	}
}

// vfSameBlockV1FormProof: cases 6 and 7 on a v1 network
func vfSameBlockV1FormProof(t *testing.T, em *verifEmitter, log *zap.Logger) {
	if em.Skip(6) && em.Skip(7) {
		return
	}
	renterKey, hostKey := types.GeneratePrivateKey(), types.GeneratePrivateKey()
	network, genesis := testutil.V1Network()
	node := testutil.NewHostNode(t, hostKey, network, genesis, log)
	fork := testutil.NewConsensusNode(t, network, genesis, log)
	testutil.MineAndSync(t, node, node.Wallet.Address(), int(network.MaturityDelay+5))
	cm, com := node.Chain, node.Contracts

	// negotiated now, window start 15 blocks ahead; the formation set goes to the pool
	rev := formContract(t, cm, com, node.Wallet, node.Syncer, node.Settings, renterKey, hostKey, types.Siacoins(10), types.Siacoins(20), 15, true)
	contractID := rev.Revision.ParentID
	ws := rev.Revision.WindowStart
	// nobody mines it: empty blocks up to the block before the window start
	for cm.Tip().Height < ws-1 {
		if err := cm.AddBlocks([]types.Block{mineEmptyBlock(cm.TipState(), types.VoidAddress)}); err != nil {
			t.Fatal(err)
		}
		testutil.WaitForSync(t, node.Chain, node.Indexer)
	}
	forkHeight := cm.Tip().Height
	var shared []types.Block
	for h := uint64(1); h <= forkHeight; h++ {
		index, _ := cm.BestIndex(h)
		b, ok := cm.Block(index.ID)
		if !ok {
			t.Fatalf("missing block at height %d", h)
		}
		shared = append(shared, b)
	}
	if err := fork.Chain.AddBlocks(shared); err != nil {
		t.Fatal(err)
	}
	// a storage proof of the empty contract joins the formation in the pool
	proofTxn := types.Transaction{StorageProofs: []types.StorageProof{{ParentID: contractID}}}
	if _, err := cm.AddPoolTransactions(append(cm.PoolTransactions(), proofTxn)); err != nil {
		t.Fatal("failed to add storage proof to pool:", err)
	}

	// what the store shows, as the StateChanges of the single created+resolved diff of contract 1
	// (created element at revision 0; the stored revision is number 1, so RevisionConfirmed is
	// false either way and says nothing about the Revised entry: it is taken as recorded)
	changes := func(revert bool) string {
		c, err := com.Contract(contractID)
		if err != nil {
			t.Fatal(err)
		}
		var confirmed, successful []string
		if c.FormationConfirmed != revert {
			confirmed = append(confirmed, "1")
		}
		if (c.Status == contracts.ContractStatusSuccessful) != revert {
			successful = append(successful, "1")
		}
		return fmt.Sprintf("(Some (mkCh %s [(1, 0)] %s [] [] [] [] [] []))", coqList(confirmed), coqList(successful))
	}

	// case 6: the block at the height of the window start carries the formation and the proof
	if !em.Skip(6) {
		testutil.MineAndSync(t, node, types.VoidAddress, 1)
		if n := len(cm.PoolTransactions()); n != 0 {
			t.Fatalf("setup: %d transactions left in the pool", n)
		}
		c, err := com.Contract(contractID)
		if err != nil {
			t.Fatal(err)
		}
		m, err := node.Store.Metrics(time.Now())
		if err != nil {
			t.Fatal(err)
		}
		em.curDesc = "formation and storage proof of one v1 contract connected in one block"
		em.FunCase(6, "(false, [mkFD 1 true true 0 None true true false], [])", changes(false), true)
		em.Count("same-block:v1-formation+proof:apply")
		if c.Status != contracts.ContractStatusSuccessful || !c.FormationConfirmed || c.ResolutionHeight != ws ||
			m.Contracts.Active != 0 || m.Contracts.Successful != 1 || !m.Contracts.LockedCollateral.IsZero() {
			em.Monitor("same-block-v1-formation-and-resolution-not-both-recorded",
				fmt.Sprintf("block %d forms and proves %v: status %v (want successful), formation confirmed %v, resolution height %d (want %d); metrics active %d successful %d locked collateral %v",
					ws, contractID, c.Status, c.FormationConfirmed, c.ResolutionHeight, ws, m.Contracts.Active, m.Contracts.Successful, m.Contracts.LockedCollateral))
		}
	}

	// case 7: that block is disconnected (the fork has empty blocks)
	if !em.Skip(7) && !em.Skip(6) {
		testutil.MineBlocks(t, fork, types.VoidAddress, 2)
		var alt []types.Block
		for h := forkHeight + 1; h <= fork.Chain.Tip().Height; h++ {
			index, _ := fork.Chain.BestIndex(h)
			b, _ := fork.Chain.Block(index.ID)
			alt = append(alt, b)
		}
		if err := cm.AddBlocks(alt); err != nil {
			t.Fatal(err)
		}
		testutil.WaitForSync(t, node.Chain, node.Indexer)
		if cm.Tip() != fork.Chain.Tip() {
			t.Fatalf("setup: no reorg: %v != %v", cm.Tip(), fork.Chain.Tip())
		}
		c, err := com.Contract(contractID)
		if err != nil {
			t.Fatal(err)
		}
		m, err := node.Store.Metrics(time.Now())
		if err != nil {
			t.Fatal(err)
		}
		em.curDesc = "the block forming and proving one v1 contract disconnected"
		em.FunCase(7, "(true, [mkFD 1 true true 0 None true true false], [])", changes(true), true)
		em.Count("same-block:v1-formation+proof:revert")
		if c.FormationConfirmed || c.ResolutionHeight != 0 || (c.Status != contracts.ContractStatusPending && c.Status != contracts.ContractStatusRejected) ||
			m.Contracts.Active != 0 || m.Contracts.Successful != 0 {
			em.Monitor("same-block-v1-formation-and-resolution-revert-not-undone",
				fmt.Sprintf("status %v (want pending or rejected), formation confirmed %v (want false), resolution height %d (want 0); metrics active %d successful %d",
					c.Status, c.FormationConfirmed, c.ResolutionHeight, m.Contracts.Active, m.Contracts.Successful))
		}
	}
}
