//go:build verif

package rhp

// Test-client additions for the C15 harness of rhp/v3 (rhp/v3/verif_c15_handlers_test.go): the
// RPCs whose handlers lock a contract, driven one message at a time, with a fault chosen by the
// harness so that the handler leaves through a given `return`, and — for the renewal — stopped
// while the handler holds the lock and waits for the renter.

import (
	"encoding/binary"
	"encoding/json"
	"errors"
	"fmt"
	"net"

	rhp2 "go.sia.tech/core/rhp/v2"
	rhp3 "go.sia.tech/core/rhp/v3"
	"go.sia.tech/core/types"
)

// Payment faults: which return of processContractPayment / processFundAccountPayment is taken.
const (
	VerifC15PayOK          = iota // payments.go:96 / 250
	VerifC15PayOldRevision        // revision number not increased: payments.go:38 / 182
	VerifC15PayMoreFunds          // renter payout grows: payments.go:46 / 190
	VerifC15PayBadOutputs         // missed outputs not adjusted: payments.go:53 / 197
	VerifC15PayBadSig             // payments.go:59 / 211
	VerifC15PayTooBig             // more than the account may hold: payments.go:86 / 240
	VerifC15PayHangUp             // the renter closes the stream instead of reading the host's signature: payments.go:94 / 248 or 96 / 250
	VerifC15PayBelowCost          // fund account only: less than the fund account cost: payments.go:205
	VerifC15PayFaults
)

// verifC15Payment builds a PayByContract request on the host's current revision.
func verifC15Payment(current types.FileContractRevision, amount types.Currency, refund rhp3.Account, key types.PrivateKey, fault int) (rhp3.PayByContractRequest, error) {
	rev := current
	rev.ValidProofOutputs = append([]types.SiacoinOutput(nil), current.ValidProofOutputs...)
	rev.MissedProofOutputs = append([]types.SiacoinOutput(nil), current.MissedProofOutputs...)
	req, ok := rhp3.PayByContract(&rev, amount, refund, key)
	if !ok {
		return req, errors.New("contract cannot pay")
	}
	switch fault {
	case VerifC15PayOldRevision:
		req.RevisionNumber = current.RevisionNumber
	case VerifC15PayMoreFunds:
		req.ValidProofValues[types.RenterContractIndex] = current.ValidProofOutputs[types.RenterContractIndex].Value.Add(types.NewCurrency64(1))
	case VerifC15PayBadOutputs:
		req.MissedProofValues[types.HostContractIndex] = current.MissedProofOutputs[types.HostContractIndex].Value
	}
	if fault == VerifC15PayOldRevision || fault == VerifC15PayMoreFunds || fault == VerifC15PayBadOutputs {
		// sign what is sent
		rev.RevisionNumber = req.RevisionNumber
		for i := range rev.ValidProofOutputs {
			rev.ValidProofOutputs[i].Value = req.ValidProofValues[i]
		}
		for i := range rev.MissedProofOutputs {
			rev.MissedProofOutputs[i].Value = req.MissedProofValues[i]
		}
		req.Signature = key.SignHash(req.SigHash(rev))
	}
	if fault == VerifC15PayBadSig {
		req.Signature[0] ^= 0xff
	}
	return req, nil
}

func (s *Session) verifC15Pay(stream *rhp3.Stream, current types.FileContractRevision, amount types.Currency, refund rhp3.Account, key types.PrivateKey, fault int) error {
	req, err := verifC15Payment(current, amount, refund, key, fault)
	if err != nil {
		return err
	}
	if err := stream.WriteResponse(&rhp3.PaymentTypeContract); err != nil {
		return err
	} else if err := stream.WriteResponse(&req); err != nil {
		return err
	}
	if fault == VerifC15PayHangUp {
		return stream.Close()
	}
	var hostSigResp rhp3.PaymentResponse
	return stream.ReadResponse(&hostSigResp, 4096)
}

// VerifC15PriceTable is the current price table of the session.
func (s *Session) VerifC15PriceTable() rhp3.HostPriceTable { return s.pt }

// VerifC15UsePriceTable makes the session use a price table registered through another session.
func (s *Session) VerifC15UsePriceTable(pt rhp3.HostPriceTable) { s.pt = pt }

// VerifC15NewSession is NewSession on a connection the caller dialed (it knows its local address).
func VerifC15NewSession(conn net.Conn, hostKey types.PublicKey, cm ChainManager, w Wallet) (*Session, error) {
	t, err := rhp3.NewRenterTransport(conn, hostKey)
	if err != nil {
		return nil, err
	}
	return &Session{hostKey: hostKey, t: t, w: w, cm: cm}, nil
}

// VerifC15FundAccount runs RPCFundAccount paid from the contract whose current revision is given.
func (s *Session) VerifC15FundAccount(current types.FileContractRevision, key types.PrivateKey, account rhp3.Account, amount types.Currency, fault int) error {
	stream := s.t.DialStream()
	defer stream.Close()
	if err := stream.WriteRequest(rhp3.RPCFundAccountID, &s.pt.UID); err != nil {
		return err
	} else if err := stream.WriteResponse(&rhp3.RPCFundAccountRequest{Account: account}); err != nil {
		return err
	}
	total := s.pt.FundAccountCost.Add(amount)
	if fault == VerifC15PayBelowCost {
		total = types.ZeroCurrency
	}
	if err := s.verifC15Pay(stream, current, total, account, key, fault); err != nil {
		return err
	} else if fault == VerifC15PayHangUp {
		return nil
	}
	var resp rhp3.RPCFundAccountResponse
	return stream.ReadResponse(&resp, 4096)
}

// VerifC15AccountBalance runs RPCAccountBalance paid from a contract (processPayment ->
// processContractPayment).
func (s *Session) VerifC15AccountBalance(current types.FileContractRevision, key types.PrivateKey, account rhp3.Account, amount types.Currency, fault int) error {
	stream := s.t.DialStream()
	defer stream.Close()
	if err := stream.WriteRequest(rhp3.RPCAccountBalanceID, &s.pt.UID); err != nil {
		return err
	}
	if amount.IsZero() {
		amount = s.pt.AccountBalanceCost
	}
	if err := s.verifC15Pay(stream, current, amount, account, key, fault); err != nil {
		return err
	} else if fault == VerifC15PayHangUp {
		return nil
	}
	if err := stream.WriteResponse(&rhp3.RPCAccountBalanceRequest{Account: account}); err != nil {
		return err
	}
	var resp rhp3.RPCAccountBalanceResponse
	return stream.ReadResponse(&resp, 4096)
}

// VerifC15LatestRevision runs RPCLatestRevision and pays for it from a contract.
func (s *Session) VerifC15LatestRevision(current types.FileContractRevision, key types.PrivateKey, account rhp3.Account, fault int) error {
	stream := s.t.DialStream()
	defer stream.Close()
	if err := stream.WriteRequest(rhp3.RPCLatestRevisionID, &rhp3.RPCLatestRevisionRequest{ContractID: current.ParentID}); err != nil {
		return err
	}
	var resp rhp3.RPCLatestRevisionResponse
	if err := stream.ReadResponse(&resp, 4096); err != nil {
		return err
	} else if err := stream.WriteResponse(&s.pt.UID); err != nil {
		return err
	}
	return s.verifC15Pay(stream, current, s.pt.LatestRevisionCost, account, key, fault)
}

// Execute faults
const (
	VerifC15ExecOK     = iota // a Revision program: rpc.go:566 with a nil error
	VerifC15ExecFails         // ReadOffset beyond the contract's data: the program fails while the contract is locked
	VerifC15ExecHangUp        // the renter closes the stream instead of reading the cancel token / the output
	VerifC15ExecFaults
)

// VerifC15Execute runs a program that needs the contract, paid from an ephemeral account, so that
// the only lock taken by the handler is the one of handleRPCExecute (rpc.go:535).
func (s *Session) VerifC15Execute(contractID types.FileContractID, payment PaymentMethod, fault int) error {
	stream := s.t.DialStream()
	defer stream.Close()
	var instr rhp3.Instruction = &rhp3.InstrRevision{}
	var budget types.Currency = s.pt.RevisionBaseCost
	if fault == VerifC15ExecFails {
		instr = &rhp3.InstrReadOffset{LengthOffset: 0, OffsetOffset: 8, ProofRequired: false}
		budget = s.pt.ReadBaseCost.Add(s.pt.ReadLengthCost.Mul64(64))
	}
	programData := make([]byte, 16)
	binary.LittleEndian.PutUint64(programData[0:8], 64)     // length
	binary.LittleEndian.PutUint64(programData[8:16], 1<<40) // offset
	req := rhp3.RPCExecuteProgramRequest{FileContractID: contractID, Program: []rhp3.Instruction{instr}, ProgramData: programData}
	if err := stream.WriteRequest(rhp3.RPCExecuteProgramID, &s.pt.UID); err != nil {
		return err
	} else if err := s.processPayment(stream, payment, s.pt.InitBaseCost.Add(budget).Add(types.Siacoins(1).Div64(1000))); err != nil {
		return err
	} else if err := stream.WriteResponse(&req); err != nil {
		return err
	}
	if fault == VerifC15ExecHangUp {
		return stream.Close()
	}
	var cancelToken types.Specifier
	if err := stream.ReadResponse(&cancelToken, 4096); err != nil {
		return err
	}
	var resp rhp3.RPCExecuteProgramResponse
	if err := stream.ReadResponse(&resp, 4096); err != nil {
		return err
	} else if resp.Error != nil {
		return resp.Error
	}
	return nil
}

// Renew faults
const (
	VerifC15RenewPause       = iota // valid request: the handler locks, answers with its additions and waits (rpc.go:397)
	VerifC15RenewBadClearing        // clearing revision with the wrong revision number: rpc.go:342-347, right after the Lock
	VerifC15RenewBadFinalSig        // final revision signature by another key: rpc.go:349-353
	VerifC15RenewFaults
)

// VerifC15Renewal is a renewal whose handler holds the contract lock and waits for the renter's
// signatures.
type VerifC15Renewal struct {
	s      *Session
	stream *rhp3.Stream
	txn    types.Transaction
}

// VerifC15RenewBegin sends RPCRenewContract for the contract whose current revision is given.
// paused = true: the host has answered with its additions — its handler holds the contract lock
// and is reading the renter's signatures; finish with Release.
func (s *Session) VerifC15RenewBegin(current types.FileContractRevision, hostAddr types.Address, renterKey, otherKey types.PrivateKey, fault int) (r *VerifC15Renewal, paused bool, err error) {
	stream := s.t.DialStream()
	done := false
	defer func() {
		if !done {
			stream.Close()
		}
	}()
	state := s.cm.TipState()
	pt := s.pt
	if err := stream.WriteRequest(rhp3.RPCRenewContractID, &pt.UID); err != nil {
		return nil, false, err
	} else if pt.UID == (rhp3.SettingsID{}) {
		var priceTableResp rhp3.RPCUpdatePriceTableResponse
		if err := stream.ReadResponse(&priceTableResp, 4096); err != nil {
			return nil, false, err
		} else if err := json.Unmarshal(priceTableResp.PriceTableJSON, &pt); err != nil {
			return nil, false, err
		}
	}
	clearingValues := make([]types.Currency, len(current.ValidProofOutputs))
	for i := range current.ValidProofOutputs {
		clearingValues[i] = current.ValidProofOutputs[i].Value
	}
	clearing, err := clearingRevision(current, clearingValues)
	if err != nil {
		return nil, false, err
	}
	if fault == VerifC15RenewBadClearing {
		clearing.RevisionNumber = current.RevisionNumber + 1
	}
	txnFee := types.Siacoins(1)
	endHeight := current.WindowEnd + 10
	renewal, baseCost := prepareContractRenewal(current, s.w.Address(), renterKey, types.Siacoins(10), types.Siacoins(20), s.hostKey, hostAddr, pt, endHeight)
	renewTxn := types.Transaction{
		MinerFees:             []types.Currency{txnFee},
		FileContractRevisions: []types.FileContractRevision{clearing},
		FileContracts:         []types.FileContract{renewal},
	}
	sigKey := renterKey
	if fault == VerifC15RenewBadFinalSig {
		sigKey = otherKey
	}
	renterCost := rhp2.ContractRenewalCost(state, renewal, pt.ContractPrice, txnFee, baseCost)
	if _, err := s.w.FundTransaction(&renewTxn, renterCost, true); err != nil {
		return nil, false, fmt.Errorf("failed to fund transaction: %w", err)
	}
	release := func() { s.w.ReleaseInputs([]types.Transaction{renewTxn}, nil) }
	renewReq := &rhp3.RPCRenewContractRequest{
		TransactionSet:         []types.Transaction{renewTxn},
		RenterKey:              renterKey.PublicKey().UnlockKey(),
		FinalRevisionSignature: sigKey.SignHash(hashFinalRevision(clearing, renewal)),
	}
	if err := stream.WriteResponse(renewReq); err != nil {
		release()
		return nil, false, err
	}
	var hostAdditions rhp3.RPCRenewContractHostAdditions
	if err := stream.ReadResponse(&hostAdditions, 4096); err != nil {
		release()
		return nil, false, err
	}
	done = true
	return &VerifC15Renewal{s: s, stream: stream, txn: renewTxn}, true, nil
}

// Release lets the waiting handler reach a return: hangUp closes the stream (rpc.go:397-400),
// otherwise signatures that do not verify are sent (rpc.go:405-410).  The renewal is never
// completed, so the contract stays as it is.
func (r *VerifC15Renewal) Release(hangUp bool) {
	defer r.s.w.ReleaseInputs([]types.Transaction{r.txn}, nil)
	defer r.stream.Close()
	if hangUp {
		return
	}
	bad := &rhp3.RPCRenewSignatures{
		RevisionSignature: types.TransactionSignature{
			PublicKeyIndex: 0,
			CoveredFields:  types.CoveredFields{FileContractRevisions: []uint64{0}},
			Signature:      make([]byte, 64),
		},
	}
	if err := r.stream.WriteResponse(bad); err != nil {
		return
	}
	var hostSigsResp rhp3.RPCRenewSignatures
	r.stream.ReadResponse(&hostSigsResp, 4096) // the host's error
}
