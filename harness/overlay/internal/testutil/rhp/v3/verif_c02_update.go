//go:build verif

package rhp

// Test-client addition for the C02 harness (rhp/v3/verif_c02_update_test.go): executes an
// UpdateSector program and deliberately does not finalize it, so the host rolls the program
// back and the contract keeps referencing the old sector root.

import (
	"fmt"

	rhp2 "go.sia.tech/core/rhp/v2"
	rhp3 "go.sia.tech/core/rhp/v3"
	"go.sia.tech/core/types"
)

// VerifUpdateSector runs [UpdateSector offset len(patch)] against the contract and returns the
// host's execute response without finalizing.
func (s *Session) VerifUpdateSector(offset uint64, patch []byte, revision *rhp2.ContractRevision, payment PaymentMethod, budget types.Currency) (rhp3.RPCExecuteProgramResponse, error) {
	stream := s.t.DialStream()
	defer stream.Close()

	req := rhp3.RPCExecuteProgramRequest{
		FileContractID: revision.ID(),
		Program: []rhp3.Instruction{
			&rhp3.InstrUpdateSector{Offset: offset, Length: uint64(len(patch)), DataOffset: 0, ProofRequired: false},
		},
		ProgramData: patch,
	}
	var resp rhp3.RPCExecuteProgramResponse
	if err := stream.WriteRequest(rhp3.RPCExecuteProgramID, &s.pt.UID); err != nil {
		return resp, fmt.Errorf("failed to write request: %w", err)
	} else if err := s.processPayment(stream, payment, s.pt.InitBaseCost.Add(budget)); err != nil {
		return resp, fmt.Errorf("failed to pay: %w", err)
	} else if err := stream.WriteResponse(&req); err != nil {
		return resp, fmt.Errorf("failed to write response: %w", err)
	}
	var cancelToken types.Specifier
	if err := stream.ReadResponse(&cancelToken, 4096); err != nil {
		return resp, fmt.Errorf("failed to read response: %w", err)
	}
	if err := stream.ReadResponse(&resp, 4096); err != nil {
		return resp, fmt.Errorf("failed to read response: %w", err)
	}
	return resp, nil
}
