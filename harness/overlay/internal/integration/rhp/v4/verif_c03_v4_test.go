//go:build verif

package rhp_test

// C03 / C13 (WP-Y) — list edits and renewals through the real RHP4 server (coreutils rhp/v4) with a second
// caller queued on the contract lock, and renewals / refreshes whose transaction set the pool refuses.
//
// A real host node (testutil.NewHostNode on the V2 network); TWO rhp4.Server instances "A" and "B" over
// the node's ONE contract manager, each seeing it through a wrapper that logs and can park its caller at
//   lock-req (LockV2Contract entered) / lock-acq (it returned) / persist-in (ReviseV2Contract or
//   RenewV2Contract entered) / persist-out (it returned nil) / unlock-req (the unlock function called)
// and can make the persisting call fail before it reaches the manager (store-error seam).
//
// TestVerifC03V4: caller A edits the list (RPCAppendSectors of roots uploaded with RPCWriteSector,
// RPCFreeSectors) and is parked; caller B (RPCSectorRoots, append, free, renew, refresh on the same
// contract) is started, counted as queued when the manager's lock table shows a waiter, stopped right
// behind the lock.  Failure seams of A: the persisting call fails; the challenge is signed with another
// key; a freed index is outside the list.  After every step persisted list (Store.V2SectorRoots), served
// list (Manager.SectorRoots; LockV2Contract().Roots as handed to B; what RPCSectorRoots returns to B) and
// the list implied by the accepted modifications are compared, plus filesize / Merkle root of the stored
// revision; a fresh manager on the same database at the end.  Monitor sigs as in
// rhp/v3/verif_c03_handlers_test.go.
//
// TestVerifC13V4 (verif_c13_v4_test.go): RPCRenewContract / RPCRefreshContract whose renter inputs the
// pool cannot accept.
//
// Recorded for coq/Roots/Hand.v (hcase / hcheck): SReq / SAcq2 / Revise2 / SRenewH (Renew2) / SRel / Look2.

import (
	"bytes"
	"context"
	"errors"
	"fmt"
	"math/rand"
	"net"
	"path/filepath"
	"strings"
	"sync"
	"testing"
	"time"

	proto4 "go.sia.tech/core/rhp/v4"
	"go.sia.tech/core/types"
	rhp4 "go.sia.tech/coreutils/rhp/v4"
	"go.sia.tech/coreutils/rhp/v4/siamux"
	"go.sia.tech/hostd/v2/host/contracts"
	"go.sia.tech/hostd/v2/internal/testutil"
	"go.uber.org/zap"
)

const y4Header = "From HostdBase Require Import Base.\nFrom HostdRoots Require Import Model Sess Chain Hand.\nOpen Scope N_scope."

// the model's LockV2Contract uses the default revision submission buffer, this host a short one: recorded
// proof heights are moved out of its reach (what the implementation answered is what is recorded)
const y4Shift = 100000

const (
	y4LockReq    = "lock-req"
	y4LockAcq    = "lock-acq"
	y4PersistIn  = "persist-in"
	y4PersistOut = "persist-out"
	y4UnlockReq  = "unlock-req"
	y4Long       = 20 * time.Second
)

type y4Event struct {
	tag, point, what string
	state            *rhp4.RevisionState
	fc               *types.V2FileContract
	roots            []types.Hash256
	id               types.FileContractID
	err              error
}

func (e y4Event) String() string {
	s := e.tag + ":" + e.point
	if e.what != "" {
		s += "(" + e.what + ")"
	}
	return s
}

type y4Gate struct {
	mu     sync.Mutex
	notify chan struct{}
	active bool
	cid    types.FileContractID
	events []y4Event
	armed  map[string]bool
	parked map[string]chan struct{}
	fault  map[string]bool
}

func newY4Gate() *y4Gate {
	return &y4Gate{notify: make(chan struct{}), armed: map[string]bool{}, parked: map[string]chan struct{}{}, fault: map[string]bool{}}
}
func (g *y4Gate) wake() { close(g.notify); g.notify = make(chan struct{}) }
func (g *y4Gate) begin(id types.FileContractID) {
	g.mu.Lock()
	defer g.mu.Unlock()
	g.active, g.cid, g.events = true, id, nil
	g.armed, g.fault = map[string]bool{}, map[string]bool{}
}
func (g *y4Gate) end() {
	g.mu.Lock()
	defer g.mu.Unlock()
	g.active = false
	for k, ch := range g.parked {
		close(ch)
		delete(g.parked, k)
	}
	g.wake()
}
func (g *y4Gate) arm(tag, point string)    { g.mu.Lock(); g.armed[tag+"/"+point] = true; g.mu.Unlock() }
func (g *y4Gate) disarm(tag, point string) { g.mu.Lock(); delete(g.armed, tag+"/"+point); g.mu.Unlock() }
func (g *y4Gate) armFault(tag string)      { g.mu.Lock(); g.fault[tag] = true; g.mu.Unlock() }
func (g *y4Gate) takeFault(tag string, id types.FileContractID) bool {
	g.mu.Lock()
	defer g.mu.Unlock()
	if !g.active || id != g.cid || !g.fault[tag] {
		return false
	}
	delete(g.fault, tag)
	return true
}
func (g *y4Gate) hit(e y4Event) {
	g.mu.Lock()
	if !g.active || e.id != g.cid {
		g.mu.Unlock()
		return
	}
	g.events = append(g.events, e)
	k := e.tag + "/" + e.point
	var rel chan struct{}
	if g.armed[k] {
		delete(g.armed, k)
		rel = make(chan struct{})
		g.parked[k] = rel
		g.events = append(g.events, y4Event{tag: e.tag, point: "parked", what: e.point, id: e.id})
	}
	g.wake()
	g.mu.Unlock()
	if rel != nil {
		select {
		case <-rel:
		case <-time.After(25 * time.Second):
		}
	}
}
func (g *y4Gate) note(tag, point string) {
	g.mu.Lock()
	defer g.mu.Unlock()
	if g.active {
		g.events = append(g.events, y4Event{tag: tag, point: point, id: g.cid})
		g.wake()
	}
}
func (g *y4Gate) release(tag, point string) {
	g.mu.Lock()
	defer g.mu.Unlock()
	k := tag + "/" + point
	if ch, ok := g.parked[k]; ok {
		close(ch)
		delete(g.parked, k)
		g.events = append(g.events, y4Event{tag: tag, point: "released", what: point, id: g.cid})
		g.wake()
	}
}
func (g *y4Gate) isParked(tag, point string) bool { _, ok := g.parked[tag+"/"+point]; return ok } // g.mu held
func (g *y4Gate) has(tag, point string) bool { // g.mu held
	for _, e := range g.events {
		if e.tag == tag && e.point == point {
			return true
		}
	}
	return false
}
func (g *y4Gate) wait(d time.Duration, pred func() bool) bool {
	deadline := time.NewTimer(d)
	defer deadline.Stop()
	for {
		g.mu.Lock()
		ok, ch := pred(), g.notify
		g.mu.Unlock()
		if ok {
			return true
		}
		select {
		case <-ch:
		case <-deadline.C:
			g.mu.Lock()
			ok := pred()
			g.mu.Unlock()
			return ok
		}
	}
}
func (g *y4Gate) snapshot() []y4Event {
	g.mu.Lock()
	defer g.mu.Unlock()
	return append([]y4Event(nil), g.events...)
}
func y4Trace(evs []y4Event) string {
	var p []string
	for _, e := range evs {
		p = append(p, e.String())
	}
	return strings.Join(p, " ")
}

var errY4Injected = errors.New("injected fault: disk I/O error")

// y4Contracts is what one rhp4.Server sees of the contract manager
type y4Contracts struct {
	*contracts.Manager
	g   *y4Gate
	tag string
}

func (c *y4Contracts) LockV2Contract(id types.FileContractID) (rhp4.RevisionState, func(), error) {
	c.g.hit(y4Event{tag: c.tag, point: y4LockReq, id: id})
	st, unlock, err := c.Manager.LockV2Contract(id)
	if err != nil {
		c.g.hit(y4Event{tag: c.tag, point: "lock-fail", id: id, err: err})
		return st, unlock, err
	}
	cp := st
	cp.Roots = append([]types.Hash256(nil), st.Roots...)
	c.g.hit(y4Event{tag: c.tag, point: y4LockAcq, id: id, state: &cp})
	return st, func() {
		c.g.hit(y4Event{tag: c.tag, point: y4UnlockReq, id: id})
		unlock()
	}, nil
}

func (c *y4Contracts) ReviseV2Contract(id types.FileContractID, revision types.V2FileContract, roots []types.Hash256, usage proto4.Usage) error {
	fc, rs := revision, append([]types.Hash256(nil), roots...)
	c.g.hit(y4Event{tag: c.tag, point: y4PersistIn, what: "revise", id: id, fc: &fc, roots: rs})
	if c.g.takeFault(c.tag, id) {
		c.g.hit(y4Event{tag: c.tag, point: "persist-fault", what: "revise", id: id, fc: &fc, roots: rs})
		return errY4Injected
	}
	if err := c.Manager.ReviseV2Contract(id, revision, roots, usage); err != nil {
		c.g.hit(y4Event{tag: c.tag, point: "persist-fail", what: "revise", id: id, fc: &fc, roots: rs, err: err})
		return err
	}
	c.g.hit(y4Event{tag: c.tag, point: y4PersistOut, what: "revise", id: id, fc: &fc, roots: rs})
	return nil
}

func (c *y4Contracts) RenewV2Contract(renewal rhp4.TransactionSet, usage proto4.Usage) error {
	txn := renewal.Transactions[len(renewal.Transactions)-1]
	id := types.FileContractID(txn.FileContractResolutions[0].Parent.ID)
	fc := txn.FileContractResolutions[0].Resolution.(*types.V2FileContractRenewal).NewContract
	c.g.hit(y4Event{tag: c.tag, point: y4PersistIn, what: "renew", id: id, fc: &fc})
	if err := c.Manager.RenewV2Contract(renewal, usage); err != nil {
		c.g.hit(y4Event{tag: c.tag, point: "persist-fail", what: "renew", id: id, fc: &fc, err: err})
		return err
	}
	c.g.hit(y4Event{tag: c.tag, point: y4PersistOut, what: "renew", id: id, fc: &fc})
	return nil
}

type y4Host struct {
	t    *testing.T
	hn   *testutil.HostNode
	key  types.PrivateKey
	g    *y4Gate
	tr   map[string]rhp4.TransportClient
}

func newY4Host(t *testing.T) *y4Host {
	n, genesis := testutil.V2Network()
	hostKey := types.NewPrivateKeyFromSeed(bytes.Repeat([]byte{6}, 32))
	hn := testutil.NewHostNode(t, hostKey, n, genesis, zap.NewNop())
	results := make(chan error, 1)
	if _, err := hn.Volumes.AddVolume(context.Background(), filepath.Join(t.TempDir(), "test.dat"), 256, results); err != nil {
		t.Fatal(err)
	} else if err := <-results; err != nil {
		t.Fatal(err)
	}
	testutil.MineAndSync(t, hn, hn.Wallet.Address(), int(n.MaturityDelay+30))
	h := &y4Host{t: t, hn: hn, key: hostKey, g: newY4Gate(), tr: map[string]rhp4.TransportClient{}}
	for _, tag := range []string{"A", "B"} {
		rs := rhp4.NewServer(hostKey, hn.Chain, hn.Syncer, &y4Contracts{Manager: hn.Contracts, g: h.g, tag: tag}, hn.Wallet, hn.Settings, hn.Volumes, rhp4.WithPriceTableValidity(2*time.Minute))
		l, err := net.Listen("tcp", ":0")
		if err != nil {
			t.Fatal(err)
		}
		t.Cleanup(func() { l.Close() })
		go siamux.Serve(l, rs, zap.NewNop())
		tr, err := siamux.Dial(context.Background(), l.Addr().String(), hostKey.PublicKey())
		if err != nil {
			t.Fatal(err)
		}
		t.Cleanup(func() { tr.Close() })
		h.tr[tag] = tr
	}
	return h
}

// ---------------------------------------------------------------- one case

type y4Edit struct {
	kind    string   // append | free
	roots   int      // append: how many uploaded roots
	indices []uint64 // free
	seam    string   // "" | store-error | bad-challenge-signature | index-out-of-range
}

type y4Pair struct {
	a     y4Edit
	point string
	b     string // roots | append | free | renew | refresh
}

func (p y4Pair) String() string {
	seam := p.a.seam
	if seam == "" {
		seam = "no failure"
	}
	return fmt.Sprintf("A=%s(%d roots, indices %v; %s) parked at %s, B=%s", p.a.kind, p.a.roots, p.a.indices, seam, p.point, p.b)
}

type y4Case struct {
	h       *y4Host
	t       *testing.T
	em      *verifEmitter
	rng     *rand.Rand
	renter  types.PrivateKey
	acct    types.PrivateKey
	ids     []types.FileContractID
	rootNum map[types.Hash256]int
	hashNum map[types.Hash256]int
	cidNum  map[types.FileContractID]int
	known   map[types.Hash256]bool
	ref     map[types.FileContractID][]types.Hash256
	pool    []types.Hash256 // uploaded with RPCWriteSector
	hit     map[string]bool
	desc    string
	edits   int
	seq     int
	pending []y4Pending
	rejected map[types.FileContractID]bool // rejected, root rows expired: the store holds no list any more
}

type y4Pending struct {
	pos     int
	op, obs string
}

func (x *y4Case) rN(r types.Hash256) int {
	if n, ok := x.rootNum[r]; ok {
		return n
	}
	x.rootNum[r] = len(x.rootNum) + 1
	return x.rootNum[r]
}
func (x *y4Case) hN(h types.Hash256) int {
	if h == (types.Hash256{}) {
		return 0
	}
	if n, ok := x.hashNum[h]; ok {
		return n
	}
	x.hashNum[h] = len(x.hashNum) + 1
	return x.hashNum[h]
}
func (x *y4Case) cN(id types.FileContractID) int {
	if n, ok := x.cidNum[id]; ok {
		return n
	}
	x.cidNum[id] = len(x.cidNum) + 1
	return x.cidNum[id]
}
func (x *y4Case) roots(l []types.Hash256) string {
	items := make([]string, len(l))
	for i, r := range l {
		items[i] = fmt.Sprint(x.rN(r))
	}
	return "[" + strings.Join(items, "; ") + "]"
}
func (x *y4Case) opt(id types.FileContractID) string {
	if id == (types.FileContractID{}) {
		return "None"
	}
	return fmt.Sprintf("(Some %d)", x.cN(id))
}
func (x *y4Case) rv2(fc types.V2FileContract) string {
	return fmt.Sprintf("(mkrv2 %d %d %d %d %d %d 1 2)", fc.RevisionNumber, fc.Filesize, fc.Capacity, x.hN(fc.FileMerkleRoot), fc.ProofHeight+y4Shift, fc.ExpirationHeight+y4Shift)
}
func (x *y4Case) monitor(sig, detail string) {
	if x.hit[sig] {
		return
	}
	x.hit[sig] = true
	x.em.Monitor(sig, detail+"; "+x.desc)
}
func (x *y4Case) sop(t int, op, obs string) {
	x.em.Step(fmt.Sprintf("HS (SOp %d (%s))", t, op), "hs (SO ("+obs+"))")
}
func (x *y4Case) ev(e, obs string) { x.em.Step("HS ("+e+")", "hs ("+obs+")") }

func y4Eq(a, b []types.Hash256) bool {
	if len(a) != len(b) {
		return false
	}
	for i := range a {
		if a[i] != b[i] {
			return false
		}
	}
	return true
}

type y4View struct {
	db, cache []types.Hash256
	c         contracts.V2Contract
}

func (x *y4Case) view(id types.FileContractID) y4View {
	all, err := x.h.hn.Store.V2SectorRoots()
	if err != nil {
		x.t.Fatal(err)
	}
	c, err := x.h.hn.Contracts.V2Contract(id)
	if err != nil {
		x.t.Fatal(err)
	}
	return y4View{db: all[id], cache: x.h.hn.Contracts.SectorRoots(id), c: c}
}

func (x *y4Case) lookTerm(id types.FileContractID, v y4View) (string, string) {
	return fmt.Sprintf("HS (SOp 0 (Look2 %d))", x.cN(id)), fmt.Sprintf("hs (SO (OLook true %s %s %d %d %d %s %s))", x.roots(v.db), x.roots(v.cache),
		v.c.RevisionNumber, v.c.Filesize, x.hN(v.c.FileMerkleRoot), x.opt(v.c.RenewedTo), x.opt(v.c.RenewedFrom))
}

func (x *y4Case) check(id types.FileContractID, v y4View, want []types.Hash256, when string, midCommit bool) {
	if v.c.RenewedTo != (types.FileContractID{}) || x.rejected[id] {
		// superseded by a renewal, or given up (formation never confirmed, rows expired): outside C03 as long
		// as the host refuses to modify it, which rejected-contract-revised watches
		return
	}
	n := x.cN(id)
	if midCommit { // inside ReviseV2Contract, after the store call and before the cache is replaced
		if !y4Eq(v.db, want) || v.c.Filesize != uint64(len(want))*proto4.SectorSize || v.c.FileMerkleRoot != proto4.MetaRoot(want) {
			x.monitor("handler-list-differs-from-accepted-modifications", fmt.Sprintf("contract %d %s: store %s, size %d; the modifications being accepted give %s", n, when, x.roots(v.db), v.c.Filesize, x.roots(want)))
		}
		return
	}
	if !y4Eq(v.db, v.cache) {
		x.monitor("persisted-list-differs-from-served-list", fmt.Sprintf("contract %d %s: store %s, manager %s", n, when, x.roots(v.db), x.roots(v.cache)))
	}
	if !y4Eq(v.db, want) || !y4Eq(v.cache, want) {
		x.monitor("handler-list-differs-from-accepted-modifications", fmt.Sprintf("contract %d %s: store %s, manager %s, accepted modifications give %s", n, when, x.roots(v.db), x.roots(v.cache), x.roots(want)))
	}
	if v.c.Filesize != uint64(len(v.cache))*proto4.SectorSize || v.c.FileMerkleRoot != proto4.MetaRoot(v.cache) {
		x.monitor("revision-differs-from-list", fmt.Sprintf("contract %d %s: revision %d has file size %d and root %v; the served list %s has %d sectors and root %v", n, when, v.c.RevisionNumber, v.c.Filesize, v.c.FileMerkleRoot, x.roots(v.cache), len(v.cache), proto4.MetaRoot(v.cache)))
	}
}

func (x *y4Case) look(id types.FileContractID, want []types.Hash256, when string) y4View {
	v := x.view(id)
	op, obs := x.lookTerm(id, v)
	x.em.Step(op, obs)
	x.check(id, v, want, when, false)
	return v
}

func (x *y4Case) lookMid(id types.FileContractID, want []types.Hash256, when string, midCommit bool) y4View {
	v := x.view(id)
	if !midCommit {
		op, obs := x.lookTerm(id, v)
		x.pending = append(x.pending, y4Pending{pos: len(x.h.g.snapshot()), op: op, obs: obs})
	}
	x.check(id, v, want, when, midCommit)
	return v
}

func (x *y4Case) prices() proto4.HostPrices {
	s, err := rhp4.RPCSettings(context.Background(), x.h.tr["A"])
	if err != nil {
		x.t.Fatal(err)
	}
	return s.Prices
}

func (x *y4Case) rev(id types.FileContractID) rhp4.ContractRevision {
	c, err := x.h.hn.Contracts.V2Contract(id)
	if err != nil {
		x.t.Fatal(err)
	}
	return rhp4.ContractRevision{ID: id, Revision: c.V2FileContract}
}

// free as the server does it (swap-remove in request order)
func y4Free(l []types.Hash256, indices []uint64) ([]types.Hash256, bool) {
	l = append([]types.Hash256(nil), l...)
	for _, i := range indices {
		if i >= uint64(len(l)) {
			return l, false
		}
	}
	for i, n := range indices {
		l[n] = l[len(l)-i-1]
	}
	return l[:len(l)-len(indices)], true
}

func (x *y4Case) upload(n int) []types.Hash256 {
	p := x.prices()
	acc := proto4.Account(x.acct.PublicKey())
	var out []types.Hash256
	for i := 0; i < n; i++ {
		x.seq++
		ln := uint64(proto4.LeafSize * (1 + x.rng.Intn(4)))
		data := bytes.Repeat([]byte{byte(x.seq), byte(x.seq >> 8), 0x59}, int(ln))[:ln]
		res, err := rhp4.RPCWriteSector(context.Background(), x.h.tr["A"], p, acc.Token(x.acct, x.h.key.PublicKey()), bytes.NewReader(data), ln)
		if err != nil {
			x.t.Fatal("write sector:", err)
		}
		out = append(out, res.Root)
		x.pool = append(x.pool, res.Root)
		if !x.known[res.Root] {
			x.known[res.Root] = true
			x.sop(0, fmt.Sprintf("StoreSec %d", x.rN(res.Root)), "ORes (Ok tt)")
		}
	}
	return out
}

func (x *y4Case) setup() { x.setupWith(true) }

// setupWith(false): the formation transaction stays in the pool and is never mined
func (x *y4Case) setupWith(confirm bool) {
	hn := x.h.hn
	cm := hn.Chain
	b := make([]byte, 32)
	x.rng.Read(b)
	x.renter = types.NewPrivateKeyFromSeed(b)
	x.rng.Read(b)
	x.acct = types.NewPrivateKeyFromSeed(b)
	p := x.prices()
	fs := &fundAndSign{hn.Wallet, x.renter}
	res, err := rhp4.RPCFormContract(context.Background(), x.h.tr["A"], cm, fs, cm.TipState(), p, x.h.key.PublicKey(), hn.Wallet.Address(), proto4.RPCFormContractParams{
		RenterPublicKey: x.renter.PublicKey(), RenterAddress: hn.Wallet.Address(), Allowance: types.Siacoins(100), Collateral: types.Siacoins(50),
		ProofHeight: cm.Tip().Height + 80,
	})
	if err != nil {
		x.t.Fatal("form:", err)
	}
	if confirm {
		if _, err := cm.AddV2PoolTransactions(res.FormationSet.Basis, res.FormationSet.Transactions); err != nil {
			x.t.Fatal(err)
		}
		testutil.MineAndSync(x.t, hn, types.VoidAddress, 2)
	}
	id := res.Contract.ID
	x.ids = append(x.ids, id)
	x.sop(0, fmt.Sprintf("Form2 %d %s", x.cN(id), x.rv2(res.Contract.Revision)), "ORes (Ok tt)")
	// an account to pay the uploads from
	fr, err := rhp4.RPCFundAccounts(context.Background(), x.h.tr["A"], cm.TipState(), fs, x.rev(id), []proto4.AccountDeposit{{Account: proto4.Account(x.acct.PublicKey()), Amount: types.Siacoins(5)}})
	if err != nil {
		x.t.Fatal("fund:", err)
	}
	// a payment is a revision that keeps the list (made under the lock by the funding handler)
	x.ev(fmt.Sprintf("SAcq2 0 %d", x.cN(id)), fmt.Sprintf("SO (OLock2 (Ok (%d, false, true, [])))", res.Contract.Revision.RevisionNumber))
	x.sop(0, fmt.Sprintf("Revise2 %d %s [] 0 true true None", x.cN(id), x.rv2(fr.Revision)), "ORes (Ok tt)")
	x.ev(fmt.Sprintf("SRel 0 %d", x.cN(id)), "SO (ORes (Ok tt))")
	x.ref[id] = nil
	x.look(id, nil, "after the formation")
}

// runEdit performs one editing RPC through server tag on the renter's view rev
func (x *y4Case) runEdit(tag string, e y4Edit, rev rhp4.ContractRevision, newRoots []types.Hash256) error {
	cs := x.h.hn.Chain.TipState()
	p := x.prices()
	sk := x.renter
	if e.seam == "bad-challenge-signature" {
		sk = types.NewPrivateKeyFromSeed(bytes.Repeat([]byte{0x42}, 32))
	}
	ctx, cancel := context.WithTimeout(context.Background(), 60*time.Second)
	defer cancel()
	var err error
	if e.kind == "append" {
		_, err = rhp4.RPCAppendSectors(ctx, x.h.tr[tag], cs, p, sk, rev, newRoots)
	} else {
		_, err = rhp4.RPCFreeSectors(ctx, x.h.tr[tag], cs, p, sk, rev, e.indices)
	}
	return err
}

func (x *y4Case) waiters(id types.FileContractID) int { return x.h.hn.Contracts.VerifC03LockWaiters(id) }

func (x *y4Case) waitFree(id types.FileContractID) {
	deadline := time.Now().Add(y4Long)
	for x.waiters(id) >= 0 && time.Now().Before(deadline) {
		time.Sleep(2 * time.Millisecond)
	}
}

// expected revision after an edit, as the renter computes it
func y4Expect(base types.V2FileContract, p proto4.HostPrices, e y4Edit, newList []types.Hash256, n int) types.V2FileContract {
	var fc types.V2FileContract
	var err error
	if e.kind == "append" {
		fc, _, err = proto4.ReviseForAppendSectors(base, p, proto4.MetaRoot(newList), uint64(n))
	} else {
		fc, _, err = proto4.ReviseForFreeSectors(base, p, proto4.MetaRoot(newList), n)
	}
	if err != nil {
		return base
	}
	return fc
}

func (x *y4Case) pair(p y4Pair) bool {
	g := x.h.g
	hn := x.h.hn
	id := x.ids[len(x.ids)-1]
	base := x.rev(id)
	if base.Revision.RenterOutput.Value.Cmp(types.Siacoins(5)) < 0 {
		return false
	}
	x.desc = p.String()
	x.em.Count("A:" + p.a.kind)
	x.em.Count("A:seam=" + p.a.seam)
	x.em.Count("A:park=" + p.point)
	x.em.Count("B:" + p.b)
	ref := x.ref[id]
	var newRoots []types.Hash256
	if p.a.kind == "append" {
		newRoots = x.upload(p.a.roots)
	}
	prices := x.prices()
	expA, okA := ref, true
	if p.a.kind == "append" {
		expA = append(append([]types.Hash256(nil), ref...), newRoots...)
	} else {
		expA, okA = y4Free(ref, p.a.indices)
	}
	willFail := p.a.seam != "" || !okA
	afterA, revAfterA := ref, base
	if !willFail {
		n := len(newRoots)
		if p.a.kind == "free" {
			n = len(p.a.indices)
		}
		afterA = expA
		revAfterA = rhp4.ContractRevision{ID: id, Revision: y4Expect(base.Revision, prices, p.a, expA, n)}
	}
	// B's request
	var bRoots []types.Hash256
	bEdit := y4Edit{}
	switch p.b {
	case "append":
		bEdit = y4Edit{kind: "append", roots: 1}
		bRoots = x.upload(1)
	case "free":
		if len(afterA) == 0 {
			p.b = "roots"
		} else {
			bEdit = y4Edit{kind: "free", indices: []uint64{uint64(x.rng.Intn(len(afterA)))}}
		}
	}
	g.begin(id)
	defer g.end()
	if p.a.seam == "store-error" {
		g.armFault("A")
	}
	var errA, errB error
	var served []types.Hash256
	var renewedTo types.FileContractID
	doneA, doneB := make(chan struct{}), make(chan struct{})
	finished := func(ch chan struct{}) bool {
		select {
		case <-ch:
			return true
		default:
			return false
		}
	}
	g.arm("A", p.point)
	go func() {
		errA = x.runEdit("A", p.a, base, newRoots)
		close(doneA)
		g.note("A", "client-done")
	}()
	if !g.wait(y4Long, func() bool { return g.isParked("A", p.point) || finished(doneA) }) {
		x.t.Fatalf("pair %v: A neither reached %s nor finished: %s", p, p.point, y4Trace(g.snapshot()))
	}
	g.mu.Lock()
	aParked := g.isParked("A", p.point)
	g.mu.Unlock()
	queued := false
	if !aParked {
		x.em.Count("pair:A-never-parked")
		g.disarm("A", p.point)
		x.waitFree(id)
	} else {
		mid := ref
		if (p.point == y4PersistOut || p.point == y4UnlockReq) && !willFail {
			mid = afterA
		}
		x.lookMid(id, mid, "while A is parked at "+p.point, false)
		g.arm("B", y4LockAcq)
	}
	go func() {
		defer func() { close(doneB); g.note("B", "client-done") }()
		cs := hn.Chain.TipState()
		ctx, cancel := context.WithTimeout(context.Background(), 60*time.Second)
		defer cancel()
		fs := &fundAndSign{hn.Wallet, x.renter}
		switch p.b {
		case "roots":
			n := uint64(len(afterA))
			if n == 0 {
				var st proto4.RPCLatestRevisionResponse
				st, errB = rhp4.RPCLatestRevision(ctx, x.h.tr["B"], id)
				_ = st
				return
			}
			var res rhp4.RPCSectorRootsResult
			res, errB = rhp4.RPCSectorRoots(ctx, x.h.tr["B"], cs, prices, fs, revAfterA, 0, n)
			served = res.Roots
		case "append", "free":
			errB = x.runEdit("B", bEdit, revAfterA, bRoots)
		case "renew":
			var res rhp4.RPCRenewContractResult
			res, errB = rhp4.RPCRenewContract(ctx, x.h.tr["B"], hn.Chain, fs, cs, prices, revAfterA.Revision, proto4.RPCRenewContractParams{ContractID: id, Allowance: types.Siacoins(60), Collateral: types.Siacoins(10), ProofHeight: revAfterA.Revision.ProofHeight + 10})
			if errB == nil {
				renewedTo = res.Contract.ID
				hn.Chain.AddV2PoolTransactions(res.RenewalSet.Basis, res.RenewalSet.Transactions)
			}
		case "refresh":
			var res rhp4.RPCRefreshContractResult
			res, errB = rhp4.RPCRefreshContract(ctx, x.h.tr["B"], hn.Chain, fs, cs, prices, revAfterA.Revision, proto4.RPCRefreshContractParams{ContractID: id, Allowance: types.Siacoins(60), Collateral: types.Siacoins(10)})
			if errB == nil {
				renewedTo = res.Contract.ID
				hn.Chain.AddV2PoolTransactions(res.RenewalSet.Basis, res.RenewalSet.Transactions)
			}
		}
	}()
	if aParked {
		if p.b == "roots" && len(afterA) == 0 {
			// RPCLatestRevision takes no lock: nothing queues
			g.wait(y4Long, func() bool { return finished(doneB) })
		} else {
			if !g.wait(y4Long, func() bool { return g.has("B", y4LockReq) || finished(doneB) }) {
				x.t.Fatalf("pair %v: B neither asked for the lock nor finished: %s", p, y4Trace(g.snapshot()))
			}
			deadline := time.Now().Add(y4Long)
			for !finished(doneB) && time.Now().Before(deadline) {
				if x.waiters(id) >= 1 {
					queued = true
					break
				}
				g.wait(5*time.Millisecond, func() bool { return finished(doneB) })
			}
		}
		g.mu.Lock()
		passed := g.isParked("B", y4LockAcq)
		g.mu.Unlock()
		if passed {
			x.monitor("second-caller-passed-held-lock", fmt.Sprintf("B got the lock of contract %d while A was parked holding it: %s", x.cN(id), y4Trace(g.snapshot())))
			g.release("B", y4LockAcq)
		}
		if queued {
			x.em.Count("pair:B-queued-behind-A")
		} else {
			x.em.Count("pair:B-not-seen-queued")
		}
		g.release("A", p.point)
		if !g.wait(y4Long, func() bool { return finished(doneA) }) {
			x.t.Fatalf("pair %v: A did not finish after it was released: %s", p, y4Trace(g.snapshot()))
		}
		if !g.wait(y4Long, func() bool { return g.isParked("B", y4LockAcq) || finished(doneB) }) {
			x.t.Fatalf("pair %v: B neither got the lock nor finished: %s", p, y4Trace(g.snapshot()))
		}
		g.mu.Lock()
		bp := g.isParked("B", y4LockAcq)
		g.mu.Unlock()
		if bp {
			want := ref
			if errA == nil {
				want = expA
			}
			v := x.lookMid(id, want, "when the queued caller B has just been given the lock", false)
			for _, e := range g.snapshot() {
				if e.tag == "B" && e.point == y4LockAcq && e.state != nil {
					if e.state.Revision.RevisionNumber != v.c.RevisionNumber || e.state.Revision.Filesize != v.c.Filesize || e.state.Revision.FileMerkleRoot != v.c.FileMerkleRoot {
						x.monitor("queued-caller-handed-stale-revision", fmt.Sprintf("LockV2Contract handed B revision %d (size %d) of contract %d, the stored revision is %d (size %d)", e.state.Revision.RevisionNumber, e.state.Revision.Filesize, x.cN(id), v.c.RevisionNumber, v.c.Filesize))
					}
					if !y4Eq(e.state.Roots, want) {
						x.monitor("queued-caller-served-stale-list", fmt.Sprintf("LockV2Contract handed B the list %s of contract %d, the accepted modifications give %s", x.roots(e.state.Roots), x.cN(id), x.roots(want)))
					}
				}
			}
			g.release("B", y4LockAcq)
		}
	}
	g.disarm("B", y4LockAcq)
	if !g.wait(y4Long, func() bool { return finished(doneA) && finished(doneB) }) {
		x.t.Fatalf("pair %v: the RPCs did not finish: %s", p, y4Trace(g.snapshot()))
	}
	x.waitFree(id)
	evs := g.snapshot()
	x.desc = fmt.Sprintf("%v: A %v, B %v; %s", p, errA, errB, y4Trace(evs))
	if errA == nil {
		if willFail {
			x.monitor("failed-modification-changes-state", fmt.Sprintf("the edit of contract %d with %s was accepted", x.cN(id), p.a.seam))
		}
		ref = expA
		x.edits++
		x.em.Count("A:accepted")
	} else {
		x.em.Count("A:refused")
		if !willFail {
			x.monitor("live-contract-refuses-revision", fmt.Sprintf("a well-formed edit of contract %d was refused: %v", x.cN(id), errA))
		}
	}
	if p.b == "roots" && errB == nil && len(afterA) > 0 && !y4Eq(served, ref) {
		x.monitor("queued-caller-served-stale-list", fmt.Sprintf("RPCSectorRoots of B on contract %d returned %s, the list after A's edit is %s", x.cN(id), x.roots(served), x.roots(ref)))
	}
	listAfterA := ref
	if errB == nil {
		x.em.Count("B:accepted")
		switch p.b {
		case "append":
			ref = append(append([]types.Hash256(nil), ref...), bRoots...)
		case "free":
			ref, _ = y4Free(ref, bEdit.indices)
		}
	} else {
		x.em.Count("B:refused")
		if (errA == nil) == !willFail {
			x.monitor("live-contract-refuses-revision", fmt.Sprintf("%s of the queued caller on contract %d was refused: %v", p.b, x.cN(id), errB))
		}
	}
	x.ref[id] = ref
	x.record(id, evs, queued)
	if errA != nil && errB != nil {
		v := x.view(id)
		if v.c.RevisionNumber != base.Revision.RevisionNumber || !y4Eq(v.db, x.ref[id]) || !y4Eq(v.cache, x.ref[id]) || v.c.Filesize != base.Revision.Filesize || v.c.FileMerkleRoot != base.Revision.FileMerkleRoot {
			x.monitor("failed-modification-changes-state", fmt.Sprintf("contract %d after the refused edit (%v): revision %d size %d store %s manager %s; before: revision %d size %d", x.cN(id), errA, v.c.RevisionNumber, v.c.Filesize, x.roots(v.db), x.roots(v.cache), base.Revision.RevisionNumber, base.Revision.Filesize))
		}
	}
	x.look(id, ref, "after the pair")
	if renewedTo != (types.FileContractID{}) {
		x.ids = append(x.ids, renewedTo)
		x.ref[renewedTo] = ref
		v := x.look(renewedTo, ref, "the successor after the pair")
		if !y4Eq(v.db, listAfterA) || v.c.RenewedFrom != id {
			x.monitor("successor-list-differs-from-predecessor", fmt.Sprintf("contract %d was renewed to %d after A's edit left %s; the successor holds %s", x.cN(id), x.cN(renewedTo), x.roots(listAfterA), x.roots(v.db)))
		}
		testutil.MineAndSync(x.t, hn, types.VoidAddress, 2)
	}
	return true
}

func (x *y4Case) record(id types.FileContractID, evs []y4Event, queued bool) {
	n := x.cN(id)
	sess := map[string]int{"A": 1, "B": 2}
	holder := ""
	pend := x.pending
	x.pending = nil
	for k, e := range evs {
		for len(pend) > 0 && pend[0].pos <= k {
			x.em.Step(pend[0].op, pend[0].obs)
			pend = pend[1:]
		}
		t, ok := sess[e.tag]
		if !ok {
			continue
		}
		switch {
		case e.point == y4LockReq:
			if holder != "" && holder != e.tag && e.tag == "B" && queued {
				x.ev(fmt.Sprintf("SReq %d %d", t, n), "SO (ORes (Ok tt))")
			}
		case e.point == y4LockAcq && e.state != nil:
			holder = e.tag
			x.ev(fmt.Sprintf("SAcq2 %d %d", t, n), fmt.Sprintf("SO (OLock2 (Ok (%d, %s, %s, %s)))", e.state.Revision.RevisionNumber, coqBool(e.state.Renewed), coqBool(e.state.Revisable), x.roots(e.state.Roots)))
		case e.what == "revise" && e.fc != nil && (e.point == y4PersistOut || e.point == "persist-fail" || e.point == "persist-fault"):
			res, fault := "Ok tt", "None"
			if e.point == "persist-fault" {
				// the call failed before the manager's first statement
				res, fault = "Err EOther", "(Some 0%nat)"
			} else if e.point == "persist-fail" {
				res = "Err EInvalid"
				x.em.Count("record:revise-refused-by-manager")
			}
			x.sop(t, fmt.Sprintf("Revise2 %d %s %s %d true true %s", n, x.rv2(*e.fc), x.roots(e.roots), x.hN(proto4.MetaRoot(e.roots)), fault), "ORes ("+res+")")
		case e.what == "renew" && e.fc != nil && e.point == y4PersistOut:
			x.ev(fmt.Sprintf("SRenewH %d true (Renew2 %d %d %s %d true None)", t, n, x.cN(id.V2RenewalID()), x.rv2(*e.fc), x.hN(e.fc.FileMerkleRoot)), "SO (ORes (Ok tt))")
		case e.point == y4UnlockReq || (e.point == "released" && e.what == y4UnlockReq):
			parkedHere := e.point == y4UnlockReq && k+1 < len(evs) && evs[k+1].tag == e.tag && evs[k+1].point == "parked" && evs[k+1].what == y4UnlockReq
			if parkedHere {
				continue
			}
			if holder == e.tag {
				holder = ""
			}
			x.ev(fmt.Sprintf("SRel %d %d", t, n), "SO (ORes (Ok tt))")
		}
	}
	for _, l := range pend {
		x.em.Step(l.op, l.obs)
	}
}

func (x *y4Case) restart() {
	hn := x.h.hn
	fresh, err := contracts.NewManager(hn.Store, hn.Volumes, hn.Chain, hn.Syncer, hn.Wallet, contracts.WithLog(zap.NewNop()))
	if err != nil {
		x.t.Fatal("fresh manager:", err)
	}
	defer fresh.Close()
	x.sop(0, "Restart", "ORes (Ok tt)")
	for _, id := range x.ids {
		v := x.view(id)
		after := fresh.SectorRoots(id)
		v2 := v
		v2.cache = after
		op, obs := x.lookTerm(id, v2)
		x.em.Step(op, obs)
		// (a contract superseded by a renewal is outside C03; RenewV2Contract leaves its cache entry behind,
		// which is C18's recorded root-cache finding)
		if v.c.RenewedTo == (types.FileContractID{}) && (!y4Eq(v.cache, after) || !y4Eq(after, x.ref[id])) {
			x.monitor("restart-changes-served-list", fmt.Sprintf("contract %d: served %s before, %s by a manager loaded from the database, accepted modifications give %s", x.cN(id), x.roots(v.cache), x.roots(after), x.roots(x.ref[id])))
		}
	}
}

func y4Directed(id int) []y4Pair {
	ap := func(n int, seam string) y4Edit { return y4Edit{kind: "append", roots: n, seam: seam} }
	fr := func(seam string, idx ...uint64) y4Edit { return y4Edit{kind: "free", indices: idx, seam: seam} }
	switch id {
	case 0:
		return []y4Pair{
			{a: ap(3, ""), point: y4PersistIn, b: "roots"},
			{a: fr("", 0), point: y4PersistOut, b: "append"},
			{a: ap(2, ""), point: y4LockAcq, b: "free"},
			{a: fr("", 1, 0), point: y4UnlockReq, b: "roots"},
			{a: ap(1, ""), point: y4PersistIn, b: "refresh"},
			{a: ap(2, ""), point: y4PersistOut, b: "roots"},
		}
	case 1:
		return []y4Pair{
			{a: ap(2, ""), point: y4PersistIn, b: "roots"},
			{a: ap(1, "store-error"), point: y4PersistIn, b: "roots"},
			{a: fr("store-error", 0), point: y4PersistIn, b: "append"},
			{a: ap(1, "bad-challenge-signature"), point: y4LockAcq, b: "roots"},
			{a: fr("index-out-of-range", 7), point: y4LockAcq, b: "roots"},
			{a: ap(1, ""), point: y4LockAcq, b: "renew"},
			{a: fr("", 0), point: y4PersistIn, b: "roots"},
		}
	}
	return nil
}

const y4DirectedCases = 2

var y4Points = []string{y4LockAcq, y4PersistIn, y4PersistIn, y4PersistOut, y4UnlockReq}

func (x *y4Case) genPair(freed *bool) y4Pair {
	r := x.rng
	n := len(x.ref[x.ids[len(x.ids)-1]])
	var a y4Edit
	if n == 0 || (n < 6 && r.Intn(5) < 3) {
		a = y4Edit{kind: "append", roots: 1 + r.Intn(3)}
	} else {
		k := 1 + r.Intn(2)
		if k > n {
			k = n
		}
		seen := map[uint64]bool{}
		for len(a.indices) < k {
			i := uint64(r.Intn(n))
			if !seen[i] {
				seen[i] = true
				a.indices = append(a.indices, i)
			}
		}
		a.kind = "free"
	}
	p := y4Pair{a: a, point: y4Points[r.Intn(len(y4Points))], b: []string{"roots", "roots", "append", "free", "renew", "refresh"}[r.Intn(6)]}
	if r.Intn(4) == 0 {
		p.a.seam = []string{"store-error", "bad-challenge-signature"}[r.Intn(2)]
		if p.a.seam == "store-error" {
			p.point = y4PersistIn
		} else {
			p.point = y4LockAcq
		}
	}
	if a.kind == "free" && p.a.seam == "" {
		*freed = true
	}
	if p.b == "free" {
		*freed = true
	}
	// after a free the capacity exceeds the file size: core's renewal sets capacity := file size and
	// Manager.RenewV2Contract refuses it (seen by WP-V); a refresh keeps the capacity
	if p.b == "renew" && *freed {
		p.b = "refresh"
	}
	return p
}

func newY4Case(t *testing.T, h *y4Host, em *verifEmitter, id int) *y4Case {
	return &y4Case{h: h, t: t, em: em, rng: verifCaseRand(id), rootNum: map[types.Hash256]int{}, hashNum: map[types.Hash256]int{}, cidNum: map[types.FileContractID]int{},
		known: map[types.Hash256]bool{}, ref: map[types.FileContractID][]types.Hash256{}, hit: map[string]bool{}, rejected: map[types.FileContractID]bool{}}
}

func TestVerifC03V4(t *testing.T) {
	em := newVerifEmitter(t, y4Header, "hcase", "hcheck")
	defer em.Close()
	h := newY4Host(t)
	n := verifN(4)
	for id := 0; id < n+y4DirectedCases; id++ {
		if em.Skip(id) {
			continue
		}
		x := newY4Case(t, h, em, id)
		em.BeginCase(id, "list edits through the real RHP4 server with a second caller queued on the contract lock")
		x.setup()
		pairs := y4Directed(id)
		freed := false
		for k := 0; k < len(pairs) || (pairs == nil && k < 5); k++ {
			var p y4Pair
			if pairs != nil {
				p = pairs[k]
			} else {
				p = x.genPair(&freed)
			}
			if !x.pair(p) {
				break
			}
		}
		x.restart()
		em.EndCase(x.edits > 0)
	}
}
