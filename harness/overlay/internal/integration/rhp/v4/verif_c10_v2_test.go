//go:build verif

package rhp_test

import (
	"bytes"
	"context"
	"fmt"
	"math/rand"
	"path/filepath"
	"strings"
	"testing"

	proto4 "go.sia.tech/core/rhp/v4"
	"go.sia.tech/core/types"
	rhp4 "go.sia.tech/coreutils/rhp/v4"
	"go.sia.tech/hostd/v2/host/contracts"
	"go.sia.tech/hostd/v2/internal/testutil"
	"go.uber.org/zap"
)

// TestVerifC10V2 drives a real host through the coreutils RHP4 server and client with generated
// sequences of form / append / free / sector-roots / fund / replenish / account-paid RPCs / renew /
// refresh, reads V2Contract() back after every RPC, records op + observation for
// coq/Revenue/ModelV2.v and evaluates the v2 monitors of C10.

type c10v2Contract struct {
	offSpending, offSum bool // a monitor already reported this contract
	id                  types.FileContractID
	kind    string // formed | renewed | refreshed
	renewed bool
	roots   int
	// Σ of the usages of the accepted RPCs (as the client computed them with core's functions)
	passed proto4.Usage
}

type c10v2Case struct {
	offFunding bool
	t      *testing.T
	em     *verifEmitter
	rng    *rand.Rand
	hn     *testutil.HostNode
	tr     rhp4.TransportClient
	host   types.PrivateKey
	renter types.PrivateKey
	cons   []*c10v2Contract
	accts  []types.PrivateKey
	stored []types.Hash256 // roots uploaded through WriteSector in this case
	okOps  int
	seq    int
}

func c10v2Cur(v types.Currency) string { return v.ExactString() }

func (c *c10v2Case) prices() proto4.HostPrices {
	s, err := rhp4.RPCSettings(context.Background(), c.tr)
	if err != nil {
		c.t.Fatal(err)
	}
	return s.Prices
}

func (c *c10v2Case) contract(i int) contracts.V2Contract {
	ct, err := c.hn.Contracts.V2Contract(c.cons[i].id)
	if err != nil {
		c.t.Fatalf("v2 contract %d: %v", i+1, err)
	}
	return ct
}

func (c *c10v2Case) rev(i int) rhp4.ContractRevision {
	return rhp4.ContractRevision{ID: c.cons[i].id, Revision: c.contract(i).V2FileContract}
}

func c10v2UsageTerm(u proto4.Usage) string {
	return fmt.Sprintf("(mkU2 %s %s %s %s %s %s)", c10v2Cur(u.RPC), c10v2Cur(u.Storage), c10v2Cur(u.Egress), c10v2Cur(u.Ingress), c10v2Cur(u.AccountFunding), c10v2Cur(u.RiskedCollateral))
}

func (c *c10v2Case) observe(kind string, ok bool) string {
	var views, bals []string
	var fundingSum, balanceSum types.Currency
	for i, k := range c.accts {
		b, err := c.hn.Contracts.AccountBalance(proto4.Account(k.PublicKey()))
		if err != nil {
			c.t.Fatal(err)
		}
		balanceSum = balanceSum.Add(b)
		bals = append(bals, fmt.Sprintf("(%d, %s)", i+1, c10v2Cur(b)))
	}
	for i, m := range c.cons {
		ct := c.contract(i)
		fc := ct.V2FileContract
		renewed := ct.RenewedTo != (types.FileContractID{})
		m.renewed = renewed
		m.roots = int(fc.Filesize / proto4.SectorSize)
		views = append(views, fmt.Sprintf("mkV2 %d (mkFC2 %d %s %s %s %s) %s %s", i+1, fc.RevisionNumber, c10v2Cur(fc.RenterOutput.Value), c10v2Cur(fc.HostOutput.Value),
			c10v2Cur(fc.MissedHostValue), c10v2Cur(fc.TotalCollateral), c10v2UsageTerm(ct.Usage), coqBool(renewed)))
		fundingSum = fundingSum.Add(ct.Usage.AccountFunding)
		// monitor 1: formed / renewed contracts: host output − total collateral = recorded renter spending
		if m.kind != "refreshed" {
			if want := fc.TotalCollateral.Add(ct.Usage.RenterCost()); !fc.HostOutput.Value.Equals(want) && !m.offSpending {
				m.offSpending = true
				c.em.Monitor("v2-host-output-minus-collateral-differs-from-recorded-spending:"+kind,
					fmt.Sprintf("%s contract %d after %s: host output %s, total collateral %s + recorded spending %s = %s", m.kind, i+1, kind, fc.HostOutput.Value, fc.TotalCollateral, ct.Usage.RenterCost(), want))
			}
		}
		// monitor 2: recorded usage = Σ usages of the accepted RPCs (categories may only gain what the
		// account funding lost)
		u, p := ct.Usage, m.passed
		if (!u.RenterCost().Equals(p.RenterCost()) || !u.RiskedCollateral.Equals(p.RiskedCollateral) ||
			u.RPC.Cmp(p.RPC) < 0 || u.Storage.Cmp(p.Storage) < 0 || u.Egress.Cmp(p.Egress) < 0 || u.Ingress.Cmp(p.Ingress) < 0 || u.AccountFunding.Cmp(p.AccountFunding) > 0) && !m.offSum {
			m.offSum = true
			c.em.Monitor("v2-recorded-usage-differs-from-sum-of-rpc-usages:"+kind,
				fmt.Sprintf("contract %d after %s: recorded %+v, sum of accepted usages %+v", i+1, kind, u, p))
		}
	}
	// monitor 3: the unspent account funding of the case's contracts is what its accounts still hold
	if !fundingSum.Equals(balanceSum) && !c.offFunding {
		c.offFunding = true
		c.em.Monitor("v2-unspent-funding-differs-from-account-balances:"+kind, fmt.Sprintf("after %s: Σ usage.AccountFunding %s, Σ balances %s", kind, fundingSum, balanceSum))
	}
	st := "SErr"
	if ok {
		st = "SOk"
		c.okOps++
	}
	c.em.Count(fmt.Sprintf("op:%s:ok=%v", kind, ok))
	return fmt.Sprintf("Obs2 %s [%s] [%s]", st, strings.Join(views, "; "), strings.Join(bals, "; "))
}

func (c *c10v2Case) confirm() { testutil.MineAndSync(c.t, c.hn, types.VoidAddress, 2) }

func (c *c10v2Case) form(allowance, collateral types.Currency) {
	p := c.prices()
	cm := c.hn.Chain
	fs := &fundAndSign{c.hn.Wallet, c.renter}
	res, err := rhp4.RPCFormContract(context.Background(), c.tr, cm, fs, cm.TipState(), p, c.host.PublicKey(), c.hn.Wallet.Address(), proto4.RPCFormContractParams{
		RenterPublicKey: c.renter.PublicKey(), RenterAddress: c.hn.Wallet.Address(), Allowance: allowance, Collateral: collateral,
		ProofHeight: cm.Tip().Height + 60 + uint64(c.rng.Intn(40)),
	})
	id := len(c.cons) + 1
	if err == nil {
		if _, err := cm.AddV2PoolTransactions(res.FormationSet.Basis, res.FormationSet.Transactions); err != nil {
			c.t.Fatal(err)
		}
		c.cons = append(c.cons, &c10v2Contract{id: res.Contract.ID, kind: "formed", passed: res.Usage})
		c.confirm()
	}
	c.em.Step(fmt.Sprintf("Form4 %d %s %s %s", id, c10v2Cur(p.ContractPrice), c10v2Cur(allowance), c10v2Cur(collateral)), c.observe("form4", err == nil))
}

func (c *c10v2Case) token(a int) proto4.AccountToken {
	acc := proto4.Account(c.accts[a].PublicKey())
	return acc.Token(c.accts[a], c.host.PublicKey())
}

// account-paid RPCs: WriteSector / ReadSector / VerifySector
func (c *c10v2Case) debit(a int) {
	p := c.prices()
	var usage proto4.Usage
	var err error
	kind := ""
	switch r := c.rng.Intn(4); {
	case r < 2 || len(c.stored) == 0:
		kind = "write4"
		n := uint64(proto4.LeafSize * (1 + c.rng.Intn(8)))
		c.seq++
		// a small set of distinct sectors (they are deduplicated by root): the volume is finite
		data := bytes.Repeat([]byte{byte(c.seq % 6), 0xC1}, int(n))[:n]
		usage = p.RPCWriteSectorCost(n)
		var res rhp4.RPCWriteSectorResult
		res, err = rhp4.RPCWriteSector(context.Background(), c.tr, p, c.token(a), bytes.NewReader(data), n)
		if err == nil {
			c.stored = append(c.stored, res.Root)
		}
	case r < 3:
		kind = "read4"
		n := uint64(proto4.LeafSize * (1 + c.rng.Intn(64)))
		usage = p.RPCReadSectorCost(n)
		_, err = rhp4.RPCReadSector(context.Background(), c.tr, p, c.token(a), bytes.NewBuffer(nil), c.stored[c.rng.Intn(len(c.stored))], 0, n)
	default:
		kind = "verify4"
		usage = p.RPCVerifySectorCost()
		_, err = rhp4.RPCVerifySector(context.Background(), c.tr, p, c.token(a), c.stored[c.rng.Intn(len(c.stored))])
	}
	c.em.Step(fmt.Sprintf("Debit4 %d %s", a+1, c10v2UsageTerm(usage)), c.observe(kind, err == nil))
}

func (c *c10v2Case) pay(i int) {
	p := c.prices()
	m := c.cons[i]
	cs := c.hn.Chain.TipState()
	rev := c.rev(i)
	var usage proto4.Usage
	var err error
	kind := ""
	switch r := c.rng.Intn(10); {
	case r < 5 && len(c.stored) > 0: // append one or two stored roots
		kind = "append4"
		n := 1 + c.rng.Intn(2)
		var roots []types.Hash256
		for k := 0; k < n; k++ {
			roots = append(roots, c.stored[c.rng.Intn(len(c.stored))])
		}
		fc := rev.Revision
		appended := uint64(len(roots))
		free := (fc.Capacity - fc.Filesize) / proto4.SectorSize
		growth := appended
		if free < appended {
			growth -= free
		} else {
			growth = 0
		}
		usage = p.RPCAppendSectorsCost(growth, fc.ExpirationHeight-p.TipHeight)
		_, err = rhp4.RPCAppendSectors(context.Background(), c.tr, cs, p, c.renter, rev, roots)
	case r < 7 && m.roots > 0: // free
		kind = "free4"
		n := 1 + c.rng.Intn(m.roots)
		var idx []uint64
		for k := 0; k < n; k++ {
			idx = append(idx, uint64(k))
		}
		usage = p.RPCFreeSectorsCost(n)
		_, err = rhp4.RPCFreeSectors(context.Background(), c.tr, cs, p, c.renter, rev, idx)
	default: // sector roots (a request for zero roots is refused by request validation)
		if m.roots == 0 {
			c.debit(c.rng.Intn(len(c.accts)))
			return
		}
		kind = "roots4"
		n := uint64(1 + c.rng.Intn(m.roots))
		usage = p.RPCSectorRootsCost(n)
		_, err = rhp4.RPCSectorRoots(context.Background(), c.tr, cs, p, c.renter, rev, 0, n)
	}
	if err == nil {
		m.passed = m.passed.Add(usage)
	}
	c.em.Step(fmt.Sprintf("Pay4 %d %s %s %s %s %s", i+1, c10v2Cur(usage.RPC), c10v2Cur(usage.Storage), c10v2Cur(usage.Egress), c10v2Cur(usage.Ingress), c10v2Cur(usage.RiskedCollateral)),
		c.observe(kind, err == nil))
}

func (c *c10v2Case) amount() types.Currency {
	switch c.rng.Intn(6) {
	case 0:
		return types.ZeroCurrency
	case 1:
		return types.NewCurrency64(uint64(1 + c.rng.Intn(1000)))
	case 2:
		return types.Siacoins(uint32(1 + c.rng.Intn(200))) // often more than the renter has left
	default:
		return types.Siacoins(1).Div64(uint64(1 + c.rng.Intn(20)))
	}
}

func (c *c10v2Case) fund(i int) {
	m := c.cons[i]
	cs := c.hn.Chain.TipState()
	n := 1 + c.rng.Intn(3)
	var deps []proto4.AccountDeposit
	var terms []string
	var total types.Currency
	for k := 0; k < n; k++ {
		a := c.rng.Intn(len(c.accts))
		amt := c.amount()
		deps = append(deps, proto4.AccountDeposit{Account: proto4.Account(c.accts[a].PublicKey()), Amount: amt})
		terms = append(terms, fmt.Sprintf("(%d, %s)", a+1, c10v2Cur(amt)))
		total = total.Add(amt)
	}
	_, err := rhp4.RPCFundAccounts(context.Background(), c.tr, cs, c.renter, c.rev(i), deps)
	if err == nil {
		m.passed = m.passed.Add(proto4.Usage{AccountFunding: total})
	}
	c.em.Step(fmt.Sprintf("Fund4 %d [%s]", i+1, strings.Join(terms, "; ")), c.observe("fund4", err == nil))
}

func (c *c10v2Case) replenish(i int) {
	m := c.cons[i]
	cs := c.hn.Chain.TipState()
	var accs []proto4.Account
	var terms []string
	for a := range c.accts {
		if c.rng.Intn(3) > 0 {
			accs = append(accs, proto4.Account(c.accts[a].PublicKey()))
			terms = append(terms, fmt.Sprint(a+1))
		}
	}
	if len(accs) == 0 {
		accs = append(accs, proto4.Account(c.accts[0].PublicKey()))
		terms = append(terms, "1")
	}
	target := c.amount()
	res, err := rhp4.RPCReplenishAccounts(context.Background(), c.tr, rhp4.RPCReplenishAccountsParams{Accounts: accs, Target: target, Contract: c.rev(i)}, cs, c.renter)
	if err == nil {
		m.passed = m.passed.Add(res.Usage)
	}
	c.em.Step(fmt.Sprintf("Replenish4 %d [%s] %s", i+1, strings.Join(terms, "; "), c10v2Cur(target)), c.observe("replenish4", err == nil))
}

func (c *c10v2Case) renew(i int, refresh bool) {
	p := c.prices()
	m := c.cons[i]
	cm := c.hn.Chain
	fs := &fundAndSign{c.hn.Wallet, c.renter}
	existing := c.contract(i).V2FileContract
	if !refresh && existing.Capacity != existing.Filesize {
		// seen while building this harness (not a C10 matter): after FreeSectors the capacity exceeds the
		// file size, core's RenewContract sets the new capacity to the file size and
		// Manager.RenewV2Contract then refuses ("must have same capacity") with an internal error
		c.em.Count("renew4:skipped-capacity-differs")
		refresh = true
	}
	coll := types.Siacoins(uint32(c.rng.Intn(30)))
	allowance := types.Siacoins(uint32(20 + c.rng.Intn(50)))
	id := len(c.cons) + 1
	var err error
	var opTerm string
	if refresh {
		var res rhp4.RPCRefreshContractResult
		res, err = rhp4.RPCRefreshContract(context.Background(), c.tr, cm, fs, cm.TipState(), p, existing, proto4.RPCRefreshContractParams{ContractID: m.id, Allowance: allowance, Collateral: coll})
		opTerm = fmt.Sprintf("Refresh4 %d %d %s %s %s", i+1, id, c10v2Cur(p.ContractPrice), c10v2Cur(allowance), c10v2Cur(coll))
		if err == nil {
			if _, err := cm.AddV2PoolTransactions(res.RenewalSet.Basis, res.RenewalSet.Transactions); err != nil {
				c.t.Fatal(err)
			}
			c.cons = append(c.cons, &c10v2Contract{id: res.Contract.ID, kind: "refreshed", passed: res.Usage})
		}
	} else {
		proofHeight := existing.ProofHeight + uint64(1+c.rng.Intn(30))
		newExp := proofHeight + proto4.ProofWindow
		storageCost := p.StoragePrice.Mul64(existing.Filesize).Mul64(newExp - existing.ExpirationHeight)
		risked := p.Collateral.Mul64(existing.Filesize).Mul64(newExp - p.TipHeight)
		var res rhp4.RPCRenewContractResult
		res, err = rhp4.RPCRenewContract(context.Background(), c.tr, cm, fs, cm.TipState(), p, existing, proto4.RPCRenewContractParams{ContractID: m.id, Allowance: allowance, Collateral: coll, ProofHeight: proofHeight})
		opTerm = fmt.Sprintf("Renew4 %d %d %s %s %s %s %s", i+1, id, c10v2Cur(p.ContractPrice), c10v2Cur(allowance), c10v2Cur(coll), c10v2Cur(storageCost), c10v2Cur(risked))
		if err == nil {
			if _, err := cm.AddV2PoolTransactions(res.RenewalSet.Basis, res.RenewalSet.Transactions); err != nil {
				c.t.Fatal(err)
			}
			c.cons = append(c.cons, &c10v2Contract{id: res.Contract.ID, kind: "renewed", passed: res.Usage})
		}
	}
	if err == nil {
		c.confirm()
	}
	kind := "renew4"
	if refresh {
		kind = "refresh4"
	}
	if err != nil {
		msg := err.Error()
		if len(msg) > 120 {
			msg = msg[len(msg)-120:]
		}
		c.em.Count("err:" + kind + ":" + msg)
	}
	c.em.Step(opTerm, c.observe(kind, err == nil))
}

func (c *c10v2Case) pick() int {
	var open []int
	for i, m := range c.cons {
		if !m.renewed {
			open = append(open, i)
		}
	}
	if len(open) == 0 || c.rng.Intn(12) == 0 {
		return c.rng.Intn(len(c.cons)) // sometimes a renewed contract: must be refused
	}
	return open[c.rng.Intn(len(open))]
}

func (c *c10v2Case) run(id int) {
	c.em.BeginCase(id, "rhp4 rpc sequence")
	for i := 0; i < 3; i++ {
		b := make([]byte, 32)
		c.rng.Read(b)
		c.accts = append(c.accts, types.NewPrivateKeyFromSeed(b))
	}
	b := make([]byte, 32)
	c.rng.Read(b)
	c.renter = types.NewPrivateKeyFromSeed(b)
	switch id {
	case 0:
		// directed: form, fund, upload, append, renew, spend the old contract's funding, refresh
		c.form(types.Siacoins(100), types.Siacoins(50))
		c.fund(0)
		c.replenish(0)
		c.debit(0)
		c.debit(1)
		c.pay(0)
		c.pay(0)
		c.renew(0, false)
		c.debit(0)
		c.pay(len(c.cons) - 1)
		c.renew(len(c.cons)-1, true)
		c.debit(1)
		c.fund(len(c.cons) - 1)
	default:
		allowance := types.Siacoins(uint32(30 + c.rng.Intn(100)))
		if c.rng.Intn(5) == 0 {
			allowance = types.Siacoins(1) // a contract that runs dry quickly
		}
		// the server's request validation wants allowance >= collateral * storage price / collateral price
		// (half the collateral with the default multiplier); stay clear of it
		coll := types.Siacoins(uint32(c.rng.Intn(2))).Mul64(uint64(c.rng.Intn(30)))
		if coll.Cmp(allowance) > 0 {
			coll = types.ZeroCurrency
		}
		c.form(allowance, coll)
		if len(c.cons) == 0 {
			c.form(types.Siacoins(50), types.ZeroCurrency)
		}
		c.fund(0)
		steps := 10 + c.rng.Intn(16)
		for k := 0; k < steps; k++ {
			i := c.pick()
			switch r := c.rng.Intn(100); {
			case r < 30:
				a := c.rng.Intn(len(c.accts))
				if c.rng.Intn(4) > 0 { // mostly an account that holds something
					for k := range c.accts {
						if b, _ := c.hn.Contracts.AccountBalance(proto4.Account(c.accts[(a+k)%len(c.accts)].PublicKey())); !b.IsZero() {
							a = (a + k) % len(c.accts)
							break
						}
					}
				}
				c.debit(a)
			case r < 55:
				c.pay(i)
			case r < 70:
				c.fund(i)
			case r < 80:
				c.replenish(i)
			case r < 88:
				if len(c.cons) < 5 {
					c.renew(i, false)
				}
			case r < 95:
				if len(c.cons) < 5 {
					c.renew(i, true)
				}
			default:
				if len(c.cons) < 5 {
					c.form(types.Siacoins(uint32(20+c.rng.Intn(50))), types.Siacoins(uint32(c.rng.Intn(20))))
				}
			}
		}
	}
	c.em.EndCase(c.okOps >= 3)
}

func TestVerifC10V2(t *testing.T) {
	em := newVerifEmitter(t, "From HostdBase Require Import Base.\nFrom HostdRevenue Require Import Model ModelV2.\nOpen Scope N_scope.", "case2", "check2")
	defer em.Close()
	n, genesis := testutil.V2Network()
	hostKey := types.NewPrivateKeyFromSeed(bytes.Repeat([]byte{5}, 32))
	hn := testutil.NewHostNode(t, hostKey, n, genesis, zap.NewNop())
	results := make(chan error, 1)
	if _, err := hn.Volumes.AddVolume(context.Background(), filepath.Join(t.TempDir(), "test.dat"), 256, results); err != nil {
		t.Fatal(err)
	} else if err := <-results; err != nil {
		t.Fatal(err)
	}
	testutil.MineAndSync(t, hn, hn.Wallet.Address(), int(n.MaturityDelay+30))
	tr := testRenterHostPair(t, hostKey, hn, zap.NewNop())
	cases := verifN(40)
	for id := 0; id < cases+1; id++ {
		if em.Skip(id) {
			continue
		}
		c := &c10v2Case{t: t, em: em, rng: verifCaseRand(id), hn: hn, tr: tr, host: hostKey}
		c.run(id)
	}
}
