//go:build verif

package rhp_test

import (
	"bytes"
	"context"
	"fmt"
	"math/rand"
	"net"
	"path/filepath"
	"strings"
	"sync"
	"testing"
	"time"

	proto4 "go.sia.tech/core/rhp/v4"
	"go.sia.tech/core/types"
	rhp4 "go.sia.tech/coreutils/rhp/v4"
	"go.sia.tech/coreutils/rhp/v4/siamux"
	"go.sia.tech/hostd/v2/host/contracts"
	"go.sia.tech/hostd/v2/internal/testutil"
	"go.uber.org/zap"
)

// TestVerifC10Conc4 (WP-V): concurrent RHP4 RPCs on a real host.
//
// One host node (chain manager, wallet, sqlite store, contracts.Manager, volume manager) serves TWO
// coreutils RHP4 servers "A" and "B".  Both use the SAME contracts.Manager as their Contractor, each
// through a wrapper of this file (c10xGate) that reports when a handler asks for the contract lock
// (lock-req), has it (lock-acq), hands a counter-signed revision to the manager (persist-in), gets
// the answer (persist-out), releases the lock (unlock-req / unlock-go / unlocked) and debits an account
// (debit-in / debit-out), and that can hold a handler at one of these points until the test lets it
// go.  Nothing in /repo is touched; below the wrappers the code is the repository's.
//
// A case: form a v2 contract, fund accounts, upload and append sectors (sequential RPCs), then
// pairs: RPC A (append / free / sector roots / fund accounts / replenish accounts / renew / refresh
// on ONE contract, or a write / read paid by account token) is started and held at a chosen
// point; RPC B (same kinds) is started while A is held, built on the stored revision or on the
// revision A has counter-signed; the test waits for the events that must follow (B asking for the
// lock, B finishing when it needs no lock), lets A go, holds B right behind the lock to read the
// state between the two, lets B finish.  No wait decides an outcome: every wait is for an event
// that is certain to come (30 s deadline, failure = harness error), the one bounded look (100 ms)
// is for an event that must NOT come (B getting the lock while A has it) and can only add a report.
//
// Recorded for coq/Revenue/ModelV2.v (case2/check2): the RPCs IN COMMIT ORDER, each with the
// read-back of every contract and account taken when nothing else can have committed.  An RPC the
// host refused is recorded as a request on a contract it does not have (`Pay4 0 ...`): the model
// refuses it and the read-back must be the unchanged state.  A ReplenishAccounts that committed is
// recorded as the FundAccounts of the deposits the host fixed (seen at the gate): when an
// account-paid RPC commits between the balance read and the credit, that is what the host does
// (ConcV2.v decide2).
//
// Case 0 is sequential and directed: refresh chains of length 3 and 4 mixed with a renewal, RPCs in
// between, for the chain equation of RefreshV2.v.

type c10xEv struct {
	tag, point string
	id         types.FileContractID
	failed     bool
	rev        types.V2FileContract
	deps       []proto4.AccountDeposit
}

type c10xCtl struct {
	mu      sync.Mutex
	evs     []c10xEv
	park    map[string]string
	parked  map[string]string
	release map[string]chan struct{}
}

func newC10xCtl() *c10xCtl {
	return &c10xCtl{park: map[string]string{}, parked: map[string]string{}, release: map[string]chan struct{}{}}
}

func (g *c10xCtl) hit(ev c10xEv) {
	g.mu.Lock()
	g.evs = append(g.evs, ev)
	if g.park[ev.tag] == ev.point {
		delete(g.park, ev.tag)
		ch := make(chan struct{})
		g.parked[ev.tag] = ev.point
		g.release[ev.tag] = ch
		g.mu.Unlock()
		<-ch
		return
	}
	g.mu.Unlock()
}

func (g *c10xCtl) setPark(tag, point string) {
	g.mu.Lock()
	defer g.mu.Unlock()
	if point == "" {
		delete(g.park, tag)
	} else {
		g.park[tag] = point
	}
}

func (g *c10xCtl) isParked(tag string) bool {
	g.mu.Lock()
	defer g.mu.Unlock()
	return g.parked[tag] != ""
}

func (g *c10xCtl) letGo(tag string) {
	g.mu.Lock()
	delete(g.park, tag)
	ch := g.release[tag]
	delete(g.release, tag)
	delete(g.parked, tag)
	g.mu.Unlock()
	if ch != nil {
		close(ch)
	}
}

func (g *c10xCtl) reset() {
	g.mu.Lock()
	defer g.mu.Unlock()
	g.evs = nil
}

// last event of tag at point (nil if none)
func (g *c10xCtl) find(tag, point string) *c10xEv {
	g.mu.Lock()
	defer g.mu.Unlock()
	for i := len(g.evs) - 1; i >= 0; i-- {
		if g.evs[i].tag == tag && g.evs[i].point == point {
			ev := g.evs[i]
			return &ev
		}
	}
	return nil
}

func (g *c10xCtl) events() []c10xEv {
	g.mu.Lock()
	defer g.mu.Unlock()
	return append([]c10xEv(nil), g.evs...)
}

// c10xGate is the Contractor handed to a coreutils server: contracts.Manager with reporting.
type c10xGate struct {
	*contracts.Manager
	tag string
	ctl *c10xCtl
}

func (g *c10xGate) LockV2Contract(id types.FileContractID) (rhp4.RevisionState, func(), error) {
	g.ctl.hit(c10xEv{tag: g.tag, point: "lock-req", id: id})
	rs, unlock, err := g.Manager.LockV2Contract(id)
	if err != nil {
		g.ctl.hit(c10xEv{tag: g.tag, point: "lock-err", id: id, failed: true})
		return rs, unlock, err
	}
	g.ctl.hit(c10xEv{tag: g.tag, point: "lock-acq", id: id, rev: rs.Revision})
	return rs, func() {
		g.ctl.hit(c10xEv{tag: g.tag, point: "unlock-req", id: id}) // may be held here, still holding the lock
		// logged BEFORE the lock is released: whoever gets the lock because of the release is logged
		// after this event (an event logged after unlock() returned could come second)
		g.ctl.hit(c10xEv{tag: g.tag, point: "unlock-go", id: id})
		unlock()
		g.ctl.hit(c10xEv{tag: g.tag, point: "unlocked", id: id})
	}, nil
}

func (g *c10xGate) ReviseV2Contract(id types.FileContractID, revision types.V2FileContract, roots []types.Hash256, usage proto4.Usage) error {
	g.ctl.hit(c10xEv{tag: g.tag, point: "persist-in", id: id, rev: revision})
	err := g.Manager.ReviseV2Contract(id, revision, roots, usage)
	g.ctl.hit(c10xEv{tag: g.tag, point: "persist-out", id: id, rev: revision, failed: err != nil})
	return err
}

func (g *c10xGate) CreditAccountsWithContract(deps []proto4.AccountDeposit, id types.FileContractID, revision types.V2FileContract, usage proto4.Usage) ([]types.Currency, error) {
	g.ctl.hit(c10xEv{tag: g.tag, point: "persist-in", id: id, rev: revision, deps: deps})
	b, err := g.Manager.CreditAccountsWithContract(deps, id, revision, usage)
	g.ctl.hit(c10xEv{tag: g.tag, point: "persist-out", id: id, rev: revision, deps: deps, failed: err != nil})
	return b, err
}

func (g *c10xGate) RenewV2Contract(set rhp4.TransactionSet, usage proto4.Usage) error {
	var id types.FileContractID
	if n := len(set.Transactions); n > 0 && len(set.Transactions[n-1].FileContractResolutions) == 1 {
		id = types.FileContractID(set.Transactions[n-1].FileContractResolutions[0].Parent.ID)
	}
	g.ctl.hit(c10xEv{tag: g.tag, point: "persist-in", id: id})
	err := g.Manager.RenewV2Contract(set, usage)
	g.ctl.hit(c10xEv{tag: g.tag, point: "persist-out", id: id, failed: err != nil})
	return err
}

func (g *c10xGate) DebitAccount(a proto4.Account, usage proto4.Usage) error {
	g.ctl.hit(c10xEv{tag: g.tag, point: "debit-in"})
	err := g.Manager.DebitAccount(a, usage)
	g.ctl.hit(c10xEv{tag: g.tag, point: "debit-out", failed: err != nil})
	return err
}

type c10xContract struct {
	id       types.FileContractID
	kind     string // formed | renewed | refreshed
	parent   int    // index of the contract this one was refreshed / renewed from (-1: formed)
	renewed  bool
	passed   proto4.Usage // Σ usages of the accepted RPCs, as the client computed them
	reported map[string]bool
}

// one RPC of a pair, and what became of it
type c10xRPC struct {
	kind  string // append4 free4 roots4 fund4 replenish4 renew4 refresh4 write4 read4
	tag   string
	con   int // contract index (revising kinds)
	acct  int // account index (account-paid kinds)
	basis rhp4.ContractRevision
	// results
	done    chan struct{}
	err     error
	usage   proto4.Usage
	op      string                // Coq term of the operation if it was accepted
	deps    []proto4.AccountDeposit // fund4: requested
	newCon  *c10xContract
	emitted bool
	seq     int             // the case's counter when the RPC was made (all its choices come from it)
	roots   []types.Hash256 // the sectors uploaded before it started
	newRoot *types.Hash256  // write4: the sector it uploaded
	newID   int             // renew4 / refresh4: index+1 the new contract gets
	refreshP proto4.RPCRefreshContractParams
	renewP   proto4.RPCRenewContractParams
}

type c10xCase struct {
	t      *testing.T
	em     *verifEmitter
	rng    *rand.Rand
	hn     *testutil.HostNode
	ctl    *c10xCtl
	tr     map[string]rhp4.TransportClient
	host   types.PrivateKey
	renter types.PrivateKey
	cons   []*c10xContract
	accts  []types.PrivateKey
	// per account: Σ accepted deposits and Σ accepted debits, kept by the test
	dep, spent []types.Currency
	stored     []types.Hash256
	okOps      int
	pairs      int
	seq        int
	offBal     bool
}

func (c *c10xCase) prices() proto4.HostPrices {
	s, err := rhp4.RPCSettings(context.Background(), c.tr["A"])
	if err != nil {
		c.t.Fatal(err)
	}
	return s.Prices
}

func (c *c10xCase) contract(i int) contracts.V2Contract {
	ct, err := c.hn.Contracts.V2Contract(c.cons[i].id)
	if err != nil {
		c.t.Fatalf("v2 contract %d: %v", i+1, err)
	}
	return ct
}

func (c *c10xCase) rev(i int) rhp4.ContractRevision {
	return rhp4.ContractRevision{ID: c.cons[i].id, Revision: c.contract(i).V2FileContract}
}

func (c *c10xCase) acctIndex(a proto4.Account) int {
	for i, k := range c.accts {
		if proto4.Account(k.PublicKey()) == a {
			return i
		}
	}
	c.t.Fatalf("unknown account %v", a)
	return -1
}

func (c *c10xCase) report(m *c10xContract, sig, detail string) {
	key := sig
	if i := strings.IndexByte(sig, ':'); i >= 0 {
		key = sig[:i]
	}
	if m != nil {
		if m.reported[key] {
			return
		}
		m.reported[key] = true
	}
	c.em.Monitor(sig, detail)
}

// observe reads every contract and account back (through the manager, no lock needed), evaluates
// the monitors and returns the Obs2 term.
func (c *c10xCase) observe(kind string, ok bool) string {
	var views, bals []string
	for i, k := range c.accts {
		b, err := c.hn.Contracts.AccountBalance(proto4.Account(k.PublicKey()))
		if err != nil {
			c.t.Fatal(err)
		}
		bals = append(bals, fmt.Sprintf("(%d, %s)", i+1, c10v2Cur(b)))
		// monitor: balance = Σ accepted deposits − Σ accepted account-paid usages
		if want, under := c.dep[i].SubWithUnderflow(c.spent[i]); (under || !want.Equals(b)) && !c.offBal {
			c.offBal = true
			c.em.Monitor("account-balance-differs-from-deposits-minus-spending:"+kind,
				fmt.Sprintf("account %d after %s: balance %s, accepted deposits %s, accepted spending %s", i+1, kind, b, c.dep[i], c.spent[i]))
		}
	}
	cts := make([]contracts.V2Contract, len(c.cons))
	for i := range c.cons {
		cts[i] = c.contract(i)
	}
	for i, m := range c.cons {
		ct := cts[i]
		fc := ct.V2FileContract
		m.renewed = ct.RenewedTo != (types.FileContractID{})
		views = append(views, fmt.Sprintf("mkV2 %d (mkFC2 %d %s %s %s %s) %s %s", i+1, fc.RevisionNumber, c10v2Cur(fc.RenterOutput.Value), c10v2Cur(fc.HostOutput.Value),
			c10v2Cur(fc.MissedHostValue), c10v2Cur(fc.TotalCollateral), c10v2UsageTerm(ct.Usage), coqBool(m.renewed)))
		// monitor: host output − total collateral = recorded spending, plus — for a refreshed contract —
		// what its chain of predecessors had recorded when each was refreshed (a renewed or refreshed
		// row is never revised again and account spending only moves value between its columns)
		carried := types.ZeroCurrency
		for j := i; c.cons[j].kind == "refreshed"; j = c.cons[j].parent {
			carried = carried.Add(cts[c.cons[j].parent].Usage.RenterCost())
		}
		want := fc.TotalCollateral.Add(ct.Usage.RenterCost()).Add(carried)
		if !fc.HostOutput.Value.Equals(want) {
			sig := "v2-host-output-minus-collateral-differs-from-spending:" + kind
			if m.kind == "refreshed" {
				sig = "v2-refresh-chain-host-output-differs-from-carried-plus-spending:" + kind
			}
			c.report(m, sig, fmt.Sprintf("%s contract %d after %s: host output %s, total collateral %s + recorded spending %s + carried over %s = %s",
				m.kind, i+1, kind, fc.HostOutput.Value, fc.TotalCollateral, ct.Usage.RenterCost(), carried, want))
		}
		// monitor: recorded usage = Σ usages of the accepted RPCs (revenue columns may only gain what the
		// account-funding column lost)
		u, p := ct.Usage, m.passed
		if !u.RenterCost().Equals(p.RenterCost()) || !u.RiskedCollateral.Equals(p.RiskedCollateral) ||
			u.RPC.Cmp(p.RPC) < 0 || u.Storage.Cmp(p.Storage) < 0 || u.Egress.Cmp(p.Egress) < 0 || u.Ingress.Cmp(p.Ingress) < 0 || u.AccountFunding.Cmp(p.AccountFunding) > 0 {
			c.report(m, "v2-usage-differs-from-accepted-rpcs:"+kind, fmt.Sprintf("contract %d after %s: recorded %+v, sum of accepted usages %+v", i+1, kind, u, p))
		}
	}
	st := "SErr"
	if ok {
		st = "SOk"
		c.okOps++
	}
	c.em.Count(fmt.Sprintf("op:%s:ok=%v", kind, ok))
	return fmt.Sprintf("Obs2 %s [%s] [%s]", st, strings.Join(views, "; "), strings.Join(bals, "; "))
}

func (c *c10xCase) confirm() { testutil.MineAndSync(c.t, c.hn, types.VoidAddress, 2) }

const c10xRefused = "Pay4 0 0 0 0 0 0"

// ---- the RPCs (client side).  Each fills r.err / r.usage / r.op and books what was accepted. ----

func (c *c10xCase) form(allowance, collateral types.Currency) {
	p := c.prices()
	cm := c.hn.Chain
	fs := &fundAndSign{c.hn.Wallet, c.renter}
	res, err := rhp4.RPCFormContract(context.Background(), c.tr["A"], cm, fs, cm.TipState(), p, c.host.PublicKey(), c.hn.Wallet.Address(), proto4.RPCFormContractParams{
		RenterPublicKey: c.renter.PublicKey(), RenterAddress: c.hn.Wallet.Address(), Allowance: allowance, Collateral: collateral,
		ProofHeight: cm.Tip().Height + 80,
	})
	if err != nil {
		c.t.Fatalf("form: %v", err)
	}
	if _, err := cm.AddV2PoolTransactions(res.FormationSet.Basis, res.FormationSet.Transactions); err != nil {
		c.t.Fatal(err)
	}
	c.cons = append(c.cons, &c10xContract{id: res.Contract.ID, kind: "formed", parent: -1, passed: res.Usage, reported: map[string]bool{}})
	c.confirm()
	c.em.Step(fmt.Sprintf("Form4 %d %s %s %s", len(c.cons), c10v2Cur(p.ContractPrice), c10v2Cur(allowance), c10v2Cur(collateral)), c.observe("form4", true))
}

func (c *c10xCase) token(a int) proto4.AccountToken {
	acc := proto4.Account(c.accts[a].PublicKey())
	return acc.Token(c.accts[a], c.host.PublicKey())
}

// run performs r on the server of its tag; called in its own goroutine for the pairs.
func (c *c10xCase) run(r *c10xRPC, p proto4.HostPrices) {
	defer close(r.done)
	tr := c.tr[r.tag]
	cs := c.hn.Chain.TipState()
	ctx := context.Background()
	switch r.kind {
	case "write4":
		n := uint64(proto4.LeafSize * (1 + r.seq%8))
		data := bytes.Repeat([]byte{byte(r.seq % 6), 0xC4}, int(n))[:n]
		r.usage = p.RPCWriteSectorCost(n)
		res, err := rhp4.RPCWriteSector(ctx, tr, p, c.token(r.acct), bytes.NewReader(data), n)
		r.err = err
		if err == nil {
			r.newRoot = &res.Root
		}
	case "read4":
		n := uint64(proto4.LeafSize * (1 + r.seq%64))
		r.usage = p.RPCReadSectorCost(n)
		_, r.err = rhp4.RPCReadSector(ctx, tr, p, c.token(r.acct), bytes.NewBuffer(nil), r.roots[r.seq%len(r.roots)], 0, n)
	case "append4":
		roots := []types.Hash256{r.roots[r.seq%len(r.roots)]}
		res, err := rhp4.RPCAppendSectors(ctx, tr, cs, p, c.renter, r.basis, roots)
		r.err = err
		if err == nil {
			r.usage = res.Usage
		}
	case "free4":
		res, err := rhp4.RPCFreeSectors(ctx, tr, cs, p, c.renter, r.basis, []uint64{0})
		r.err = err
		if err == nil {
			r.usage = res.Usage
		}
	case "roots4":
		res, err := rhp4.RPCSectorRoots(ctx, tr, cs, p, c.renter, r.basis, 0, 1)
		r.err = err
		if err == nil {
			r.usage = res.Usage
		}
	case "fund4":
		res, err := rhp4.RPCFundAccounts(ctx, tr, cs, c.renter, r.basis, r.deps)
		r.err = err
		if err == nil {
			r.usage = res.Usage
		}
	case "replenish4":
		var accs []proto4.Account
		for _, k := range c.accts {
			accs = append(accs, proto4.Account(k.PublicKey()))
		}
		_, r.err = rhp4.RPCReplenishAccounts(ctx, tr, rhp4.RPCReplenishAccountsParams{Accounts: accs, Target: types.Siacoins(2), Contract: r.basis}, cs, c.renter)
	case "renew4", "refresh4":
		c.renew(r, p, r.refreshP, r.renewP)
	default:
		c.t.Errorf("kind %q", r.kind)
	}
}

// prepare fills in what a renewal / refresh amounts to before it is sent: the operation term, the
// new contract's id (V2RenewalID of the existing one) and the usage core prices it at.
func (c *c10xCase) prepare(r *c10xRPC, p proto4.HostPrices) (proto4.RPCRefreshContractParams, proto4.RPCRenewContractParams) {
	existing := r.basis.Revision
	coll := types.Siacoins(uint32(1 + r.seq%7))
	allowance := types.Siacoins(uint32(20 + r.seq%30))
	newID := r.basis.ID.V2RenewalID()
	if r.kind == "refresh4" {
		params := proto4.RPCRefreshContractParams{ContractID: r.basis.ID, Allowance: allowance, Collateral: coll}
		_, usage := proto4.RefreshContract(existing, p, params)
		r.op = fmt.Sprintf("Refresh4 %d %d %s %s %s", r.con+1, r.newID, c10v2Cur(p.ContractPrice), c10v2Cur(allowance), c10v2Cur(coll))
		r.newCon = &c10xContract{id: newID, kind: "refreshed", parent: r.con, passed: usage, reported: map[string]bool{}}
		return params, proto4.RPCRenewContractParams{}
	}
	proofHeight := existing.ProofHeight + uint64(1+r.seq%20)
	newExp := proofHeight + proto4.ProofWindow
	storageCost := p.StoragePrice.Mul64(existing.Filesize).Mul64(newExp - existing.ExpirationHeight)
	risked := p.Collateral.Mul64(existing.Filesize).Mul64(newExp - p.TipHeight)
	params := proto4.RPCRenewContractParams{ContractID: r.basis.ID, Allowance: allowance, Collateral: coll, ProofHeight: proofHeight}
	_, usage := proto4.RenewContract(existing, p, params)
	r.op = fmt.Sprintf("Renew4 %d %d %s %s %s %s %s", r.con+1, r.newID, c10v2Cur(p.ContractPrice), c10v2Cur(allowance), c10v2Cur(coll), c10v2Cur(storageCost), c10v2Cur(risked))
	r.newCon = &c10xContract{id: newID, kind: "renewed", parent: r.con, passed: usage, reported: map[string]bool{}}
	return proto4.RPCRefreshContractParams{}, params
}

func (c *c10xCase) renew(r *c10xRPC, p proto4.HostPrices, refresh proto4.RPCRefreshContractParams, renewal proto4.RPCRenewContractParams) {
	cm := c.hn.Chain
	fs := &fundAndSign{c.hn.Wallet, c.renter}
	var set rhp4.TransactionSet
	var got types.FileContractID
	if r.kind == "refresh4" {
		res, err := rhp4.RPCRefreshContract(context.Background(), c.tr[r.tag], cm, fs, cm.TipState(), p, r.basis.Revision, refresh)
		r.err, set, got = err, res.RenewalSet, res.Contract.ID
	} else {
		res, err := rhp4.RPCRenewContract(context.Background(), c.tr[r.tag], cm, fs, cm.TipState(), p, r.basis.Revision, renewal)
		r.err, set, got = err, res.RenewalSet, res.Contract.ID
	}
	if r.err == nil {
		if got != r.newCon.id {
			c.t.Errorf("harness: renewal id %v, expected %v", got, r.newCon.id)
		}
		if _, err := cm.AddV2PoolTransactions(set.Basis, set.Transactions); err != nil {
			c.t.Error(err)
		}
	}
}

// emit records r with the state as it is now.  r has finished, or it is held behind its commit
// (persist-out / unlock-req / debit-out): then the gate's view of the commit decides whether it was
// accepted (the client does not know yet).
func (c *c10xCase) emit(r *c10xRPC, obsKind string) {
	if r.emitted {
		return
	}
	r.emitted = true
	finished := isDone(r)
	commitPoint := "persist-out"
	if !c10xRevising(r.kind) {
		commitPoint = "debit-out"
	}
	commit := c.ctl.find(r.tag, commitPoint)
	committed := commit != nil && !commit.failed
	ok := committed
	if finished {
		ok = r.err == nil
		if ok != committed && !(ok && r.kind == "replenish4") {
			// the client and the store disagree about the outcome: record what the store did, the
			// correspondence check sees the rest
			c.em.Count(fmt.Sprintf("client-store-disagree:%s:client-ok=%v", r.kind, ok))
			ok = committed
		}
		if r.newRoot != nil {
			c.stored = append(c.stored, *r.newRoot)
		}
	}
	op := c10xRefused
	switch r.kind {
	case "write4", "read4":
		if ok {
			op = fmt.Sprintf("Debit4 %d %s", r.acct+1, c10v2UsageTerm(r.usage))
			c.spent[r.acct] = c.spent[r.acct].Add(r.usage.RenterCost())
		}
	case "append4", "free4", "roots4":
		if ok {
			u := r.usage
			if !finished {
				u = c.pricedUsage(r)
			}
			op = fmt.Sprintf("Pay4 %d %s %s %s %s %s", r.con+1, c10v2Cur(u.RPC), c10v2Cur(u.Storage), c10v2Cur(u.Egress), c10v2Cur(u.Ingress), c10v2Cur(u.RiskedCollateral))
			c.cons[r.con].passed = c.cons[r.con].passed.Add(u)
		}
	case "fund4", "replenish4":
		if ok && committed {
			var terms []string
			var total types.Currency
			for _, d := range commit.deps {
				a := c.acctIndex(d.Account)
				terms = append(terms, fmt.Sprintf("(%d, %s)", a+1, c10v2Cur(d.Amount)))
				total = total.Add(d.Amount)
				c.dep[a] = c.dep[a].Add(d.Amount)
			}
			op = fmt.Sprintf("Fund4 %d [%s]", r.con+1, strings.Join(terms, "; "))
			c.cons[r.con].passed = c.cons[r.con].passed.Add(proto4.Usage{AccountFunding: total})
		} else if ok {
			// a replenish that found nothing to deposit: accepted, nothing written
			op = fmt.Sprintf("Replenish4 %d [1; 2; 3] %s", r.con+1, c10v2Cur(types.Siacoins(2)))
		}
	case "renew4", "refresh4":
		if ok {
			op = r.op
			c.cons = append(c.cons, r.newCon)
		}
	}
	if !ok {
		msg := "held"
		if r.err != nil {
			msg = r.err.Error()
			if len(msg) > 70 {
				msg = msg[len(msg)-70:]
			}
		}
		c.em.Count("refused:" + r.kind + ":" + msg)
	}
	c.em.Step(op, c.observe(obsKind, ok))
}

// the usage of a revising RPC that has committed but whose client has not returned yet: the
// difference the counter-signed revision makes to the renter output is not enough (columns), so it
// is priced the way the client does
func (c *c10xCase) pricedUsage(r *c10xRPC) proto4.Usage {
	p := c.prices()
	fc := r.basis.Revision
	switch r.kind {
	case "append4":
		var growth uint64 = 1
		if (fc.Capacity-fc.Filesize)/proto4.SectorSize >= 1 {
			growth = 0
		}
		return p.RPCAppendSectorsCost(growth, fc.ExpirationHeight-p.TipHeight)
	case "free4":
		return p.RPCFreeSectorsCost(1)
	default:
		return p.RPCSectorRootsCost(1)
	}
}

func (c *c10xCase) wait(what string, pred func() bool) {
	deadline := time.Now().Add(30 * time.Second)
	for !pred() {
		if time.Now().After(deadline) {
			c.t.Fatalf("harness: timed out waiting for %s; events %+v", what, c.eventNames())
		}
		time.Sleep(200 * time.Microsecond)
	}
}

func (c *c10xCase) eventNames() []string {
	var s []string
	for _, e := range c.ctl.events() {
		s = append(s, e.tag+":"+e.point)
	}
	return s
}

func isDone(r *c10xRPC) bool {
	select {
	case <-r.done:
		return true
	default:
		return false
	}
}

var c10xKinds = []string{"append4", "free4", "roots4", "fund4", "replenish4", "renew4", "refresh4", "write4", "read4"}
var c10xPoints = []string{"lock-req", "lock-acq", "persist-in", "persist-out", "unlock-req"}

func c10xRevising(kind string) bool { return kind != "write4" && kind != "read4" }

// the newest contract of the case that can still be revised
func (c *c10xCase) current() int {
	for i := len(c.cons) - 1; i >= 0; i-- {
		if !c.cons[i].renewed {
			return i
		}
	}
	return len(c.cons) - 1
}

func (c *c10xCase) mkRPC(kind, tag string, con int, basis rhp4.ContractRevision, p proto4.HostPrices) *c10xRPC {
	c.seq++
	r := &c10xRPC{kind: kind, tag: tag, con: con, acct: c.seq % len(c.accts), basis: basis, done: make(chan struct{}),
		seq: c.seq, roots: append([]types.Hash256(nil), c.stored...), newID: len(c.cons) + 1}
	if kind == "renew4" && basis.Revision.Capacity != basis.Revision.Filesize {
		// after FreeSectors the capacity exceeds the file size; core's RenewContract then produces a
		// contract Manager.RenewV2Contract refuses after the transaction went to the pool (noted in
		// verif_c10_v2_test.go, not a C10 matter): refresh instead
		c.em.Count("renew4:capacity-differs->refresh4")
		r.kind = "refresh4"
	}
	if r.kind == "fund4" {
		amts := []types.Currency{types.Siacoins(1).Div64(uint64(2 + c.seq%9)), types.NewCurrency64(uint64(1 + c.seq%1000)), types.ZeroCurrency}
		for k := 0; k < 1+c.seq%2; k++ {
			a := (c.seq + k) % len(c.accts)
			r.deps = append(r.deps, proto4.AccountDeposit{Account: proto4.Account(c.accts[a].PublicKey()), Amount: amts[(c.seq+k)%len(amts)]})
		}
	}
	if r.kind == "renew4" || r.kind == "refresh4" {
		r.refreshP, r.renewP = c.prepare(r, p)
	}
	if (r.kind == "read4" || r.kind == "append4") && len(r.roots) == 0 {
		c.t.Fatal("harness: no sector uploaded")
	}
	return r
}

// pair runs RPC A held at point, RPC B started meanwhile.
func (c *c10xCase) pair(kindA, point, kindB string, onNext bool) {
	c.ctl.reset()
	p := c.prices()
	con := c.current()
	base := c.rev(con)
	if len(c.cons) >= 7 {
		// keep the case small: no more renewals
		if kindA == "renew4" || kindA == "refresh4" {
			kindA = "roots4"
		}
		if kindB == "renew4" || kindB == "refresh4" {
			kindB = "fund4"
		}
	}
	if !c10xRevising(kindA) {
		if point == "lock-req" || point == "lock-acq" || point == "persist-in" {
			point = "debit-in"
		} else {
			point = "debit-out"
		}
	}
	a := c.mkRPC(kindA, "A", con, base, p)
	desc := fmt.Sprintf("%s@%s/%s", a.kind, point, kindB)
	c.ctl.setPark("A", point)
	go c.run(a, p)
	c.wait("A held at "+point+" or finished ("+desc+")", func() bool { return c.ctl.isParked("A") || isDone(a) })
	aHeld := c.ctl.isParked("A")
	aCommitted := aHeld && (point == "persist-out" || point == "unlock-req" || point == "debit-out")
	aHolds := aHeld && c10xRevising(a.kind) && point != "lock-req"
	if !aHeld {
		c.em.Count("pair:first-finished-before-its-point:" + a.kind + "@" + point)
		c.ctl.setPark("A", "")
	}
	if aCommitted || isDone(a) {
		// nothing else is running: the state is A's
		c.emit(a, a.kind+"-concurrent")
	}
	// B: on the revision A has counter-signed, if there is one and it is asked for
	basisB := base
	if ev := c.ctl.find("A", "persist-in"); onNext && aHeld && ev != nil && (a.kind != "renew4" && a.kind != "refresh4") {
		basisB = rhp4.ContractRevision{ID: base.ID, Revision: ev.rev}
		desc += "+next"
	}
	b := c.mkRPC(kindB, "B", con, basisB, p)
	bBehindLock := c10xRevising(b.kind) && aHolds && !a.emitted
	if bBehindLock {
		c.ctl.setPark("B", "lock-acq")
	}
	go c.run(b, p)
	if c10xRevising(b.kind) && aHolds {
		// B must come to ask for the lock (or fail before) and must not get it
		c.wait("B asking for the lock ("+desc+")", func() bool { return c.ctl.find("B", "lock-req") != nil || isDone(b) })
		if !isDone(b) {
			until := time.Now().Add(100 * time.Millisecond)
			for time.Now().Before(until) && c.ctl.find("B", "lock-acq") == nil && !isDone(b) {
				time.Sleep(time.Millisecond)
			}
		}
	} else {
		c.wait("B finishing ("+desc+")", func() bool { return isDone(b) })
		c.emit(b, b.kind+"-concurrent")
	}
	// let A go
	c.ctl.letGo("A")
	c.wait("A finishing ("+desc+")", func() bool { return isDone(a) })
	if !b.emitted {
		c.wait("B behind the lock or finished ("+desc+")", func() bool { return c.ctl.isParked("B") || isDone(b) })
	}
	c.emit(a, a.kind+"-concurrent")
	c.ctl.letGo("B")
	c.wait("B finishing ("+desc+")", func() bool { return isDone(b) })
	c.emit(b, b.kind+"-concurrent")
	c.structural(desc)
	if a.newCon != nil || b.newCon != nil {
		c.confirm()
	}
	c.pairs++
	c.em.Count("pair:" + a.kind + "@" + point + "/" + b.kind)
	c.em.Count(fmt.Sprintf("pair-outcome:A=%v:B=%v", a.err == nil, b.err == nil))
}

// structural replays the gate events of the pair: a lock is never granted while it is held, nothing
// is handed to the store by a handler that does not hold the contract's lock.
func (c *c10xCase) structural(desc string) {
	holder := map[types.FileContractID]string{}
	for _, e := range c.ctl.events() {
		switch e.point {
		case "lock-acq":
			if h := holder[e.id]; h != "" {
				c.em.Monitor("v2-contract-lock-granted-while-held", fmt.Sprintf("%s: %s got the lock of %v while %s holds it", desc, e.tag, e.id, h))
			}
			holder[e.id] = e.tag
		case "unlock-go":
			if holder[e.id] == e.tag {
				delete(holder, e.id)
			}
		case "persist-in":
			if holder[e.id] != e.tag {
				c.em.Monitor("v2-revision-persisted-without-the-lock", fmt.Sprintf("%s: %s hands a revision of %v to the store, lock holder %q", desc, e.tag, e.id, holder[e.id]))
			}
		}
	}
}

// sequential RPC (set-up and the directed chain case)
func (c *c10xCase) single(kind string, con int) *c10xRPC {
	c.ctl.reset()
	p := c.prices()
	r := c.mkRPC(kind, "A", con, c.rev(con), p)
	c.run(r, p)
	c.emit(r, r.kind)
	if r.newCon != nil {
		c.confirm()
	}
	return r
}

func (c *c10xCase) setup() {
	for i := 0; i < 3; i++ {
		b := make([]byte, 32)
		c.rng.Read(b)
		c.accts = append(c.accts, types.NewPrivateKeyFromSeed(b))
	}
	c.dep = make([]types.Currency, 3)
	c.spent = make([]types.Currency, 3)
	b := make([]byte, 32)
	c.rng.Read(b)
	c.renter = types.NewPrivateKeyFromSeed(b)
	c.seq = c.rng.Intn(1000)
	c.form(types.Siacoins(200), types.Siacoins(60))
	// fund all three accounts, upload two sectors, append them
	c.ctl.reset()
	r := c.mkRPC("fund4", "A", 0, c.rev(0), c.prices())
	r.deps = nil
	for _, k := range c.accts {
		r.deps = append(r.deps, proto4.AccountDeposit{Account: proto4.Account(k.PublicKey()), Amount: types.Siacoins(1)})
	}
	c.run(r, c.prices())
	c.emit(r, "fund4")
	c.single("write4", 0)
	c.single("write4", 0)
	if len(c.stored) == 0 {
		c.t.Fatal("no sector stored")
	}
	c.single("append4", 0)
	c.single("append4", 0)
}

func (c *c10xCase) runCase(id int) {
	c.em.BeginCase(id, "rhp4 concurrent pairs")
	c.setup()
	if id == 0 {
		// directed, sequential: refresh chains (3 and 4 long) around a renewal, RPCs in between
		for _, k := range []string{"refresh4", "roots4", "write4", "refresh4", "fund4", "read4", "refresh4", "append4", "renew4", "write4", "refresh4", "replenish4", "refresh4", "read4", "free4", "refresh4", "write4", "refresh4", "roots4", "read4"} {
			con := c.current()
			if k == "renew4" {
				// a renewal wants capacity = file size: nothing was freed so far
			}
			c.single(k, con)
		}
		depth := 0
		for j := len(c.cons) - 1; c.cons[j].kind == "refreshed"; j = c.cons[j].parent {
			depth++
		}
		c.em.Count(fmt.Sprintf("chain:refresh-depth-of-last=%d:contracts=%d", depth, len(c.cons)))
		c.em.EndCase(c.okOps >= 10)
		return
	}
	total := len(c10xKinds) * len(c10xPoints) * len(c10xKinds) * 2
	start := int(verifSeed()*97) % total
	const stride = 233 // prime, coprime to 9*5*9*2 = 810: 162 cases walk through every pair once
	for k := 0; k < 5; k++ {
		x := (start + ((id-1)*5+k)*stride) % total
		onNext := x%2 == 1
		x /= 2
		kb := c10xKinds[x%len(c10xKinds)]
		x /= len(c10xKinds)
		pt := c10xPoints[x%len(c10xPoints)]
		x /= len(c10xPoints)
		ka := c10xKinds[x%len(c10xKinds)]
		c.pair(ka, pt, kb, onNext)
	}
	c.em.EndCase(c.pairs >= 2)
}

func c10xServe(t *testing.T, hostKey types.PrivateKey, hn *testutil.HostNode, gate rhp4.Contractor) rhp4.TransportClient {
	rs := rhp4.NewServer(hostKey, hn.Chain, hn.Syncer, gate, hn.Wallet, hn.Settings, hn.Volumes, rhp4.WithPriceTableValidity(10*time.Minute))
	l, err := net.Listen("tcp", "127.0.0.1:0")
	if err != nil {
		t.Fatal(err)
	}
	t.Cleanup(func() { l.Close() })
	go siamux.Serve(l, rs, zap.NewNop())
	transport, err := siamux.Dial(context.Background(), l.Addr().String(), hostKey.PublicKey())
	if err != nil {
		t.Fatal(err)
	}
	t.Cleanup(func() { transport.Close() })
	return transport
}

func TestVerifC10Conc4(t *testing.T) {
	em := newVerifEmitter(t, "From HostdBase Require Import Base.\nFrom HostdRevenue Require Import Model ModelV2.\nOpen Scope N_scope.", "case2", "check2")
	defer em.Close()
	n, genesis := testutil.V2Network()
	hostKey := types.NewPrivateKeyFromSeed(bytes.Repeat([]byte{6}, 32))
	hn := testutil.NewHostNode(t, hostKey, n, genesis, zap.NewNop())
	results := make(chan error, 1)
	if _, err := hn.Volumes.AddVolume(context.Background(), filepath.Join(t.TempDir(), "test.dat"), 256, results); err != nil {
		t.Fatal(err)
	} else if err := <-results; err != nil {
		t.Fatal(err)
	}
	testutil.MineAndSync(t, hn, hn.Wallet.Address(), int(n.MaturityDelay+30))
	ctl := newC10xCtl()
	tr := map[string]rhp4.TransportClient{
		"A": c10xServe(t, hostKey, hn, &c10xGate{Manager: hn.Contracts, tag: "A", ctl: ctl}),
		"B": c10xServe(t, hostKey, hn, &c10xGate{Manager: hn.Contracts, tag: "B", ctl: ctl}),
	}
	cases := verifN(8)
	for id := 0; id < cases+1; id++ {
		if em.Skip(id) {
			continue
		}
		c := &c10xCase{t: t, em: em, rng: verifCaseRand(id), hn: hn, ctl: ctl, tr: tr, host: hostKey}
		c.runCase(id)
	}
}
