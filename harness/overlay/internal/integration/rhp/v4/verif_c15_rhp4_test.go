//go:build verif

package rhp_test

// C15 (and C04) — the coreutils RHP4 server as a user of hostd's contract lock, driven for real (WP-H).
//
// One host node (chain manager, wallet, sqlite store, contracts.Manager, volume manager).  Every
// handler slot of a schedule has its OWN coreutils rhp4.Server (same host key, same node) whose
// Contractor is the node's contracts.Manager behind c15hGate: entry to and return from
// LockV2Contract, every call of the returned unlock closure, ReviseV2Contract / RenewV2Contract /
// CreditAccountsWithContract and DebitAccount are noted with the slot as caller id (and can be held
// at a gate: only the C04 races use that).  Free callers call the same Manager.LockV2Contract
// through a gate of their own.  Nothing of /repo or of coreutils is changed.
//
// The renter side drives the RPCs one message at a time where the handler reads twice (free /
// append sectors, replenish accounts: hand-written client; refresh / renew: coreutils' client with a
// signer that stops before the second message), with a fault that selects the handler's return:
// invalid before the lock, bad challenge / renter signature or impossible deposit after the lock,
// stream dropped as soon as the handler has asked for the lock ("dropped while queued": hostd locks
// with context.Background(), the handler must stay queued and be served later), second message
// good / badly signed / never sent (stream dropped).
//
// After each step of a schedule the driver waits for a model-independent quiescence predicate (what
// the gates have seen per slot, what the renter side knows, the REAL lock table read under lr.mu
// through contracts.Manager.VerifC15UTable) and records statuses + table for coq/Lock/Users.v (UR4
// programs; trace inclusion).  No wait decides an outcome: every wait is for an event that must
// come (20 s deadline, failure = monitor hit / harness error).
//
// Monitors (independent of the model): two-holders-of-one-contract, revise-outside-lock,
// unlock-called-twice, unlock-by-non-holder, unlock-panicked, lock-leaked-after-all-returned,
// waiter-neither-served-nor-cancelled, handler-returned-holding-lock, rhp4-rpc-did-not-return,
// lock-table-disagrees-with-callers; C04 side (RHP4 only, two RPCs racing on one account, held
// together in front of DebitAccount / CreditAccountsWithContract and let go at once):
// c04-double-spend, c04-balance-differs-from-deposits-minus-withdrawals,
// c04-withdrawals-exceed-deposits.

import (
	"bytes"
	"context"
	"errors"
	"fmt"
	"math/rand"
	"net"
	"path/filepath"
	"runtime"
	"sort"
	"strings"
	"sync"
	"sync/atomic"
	"testing"
	"time"

	proto4 "go.sia.tech/core/rhp/v4"
	"go.sia.tech/core/types"
	rhp4 "go.sia.tech/coreutils/rhp/v4"
	"go.sia.tech/coreutils/rhp/v4/siamux"
	"go.sia.tech/hostd/v2/host/contracts"
	"go.sia.tech/hostd/v2/internal/testutil"
	"go.uber.org/zap"
)

const c15hHeader = "From HostdBase Require Import Base.\nFrom HostdLock Require Import Model Users."

const (
	c15hFree = iota
	c15hAppend
	c15hFund
	c15hReplenish
	c15hRoots
	c15hRefresh
	c15hRenew
	c15hLatest
	c15hKinds
)

var c15hKindTerm = []string{"K4Free", "K4Append", "K4Fund", "K4Replenish", "K4Roots", "K4Refresh", "K4Renew", "K4Latest"}
var c15hKindName = []string{"free", "append", "fund", "replenish", "roots", "refresh", "renew", "latest"}
var c15hTwoPhase = []bool{true, true, false, true, false, true, true, false}

const (
	c15hOK         = iota // valid request
	c15hPre               // invalid before the lock (price table signature)
	c15hBadSig            // after the lock: bad challenge signature / bad renter signature
	c15hNoFunds           // after the lock: fund accounts with a deposit above the renter's output
	c15hDropQueued        // the renter hangs up as soon as the handler has asked for the lock
	c15hFaults
)

var c15hFaultName = []string{"ok", "pre", "badsig", "nofunds", "dropq"}

func c15hFaultsOf(kind int) []int {
	switch kind {
	case c15hFree, c15hReplenish, c15hRoots:
		return []int{c15hOK, c15hBadSig, c15hDropQueued}
	case c15hAppend, c15hRefresh, c15hRenew:
		return []int{c15hOK, c15hPre, c15hBadSig, c15hDropQueued}
	case c15hFund:
		return []int{c15hOK, c15hBadSig, c15hNoFunds, c15hDropQueued}
	default:
		return []int{c15hOK, c15hDropQueued}
	}
}

const (
	c15hRelGood = iota
	c15hRelBadSig
	c15hRelDrop
)

// ---- the gates --------------------------------------------------------------------------------

type c15hViol struct{ sig, detail string }

type c15hAcct struct {
	account proto4.Account
	amount  types.Currency
	ok      bool
}

type c15hCtl struct {
	mu       sync.Mutex
	inLock   map[int]types.FileContractID // slot -> id it is inside LockV2Contract for
	inUnlock map[int]int                  // slot -> unlock closures running
	holds    map[int]types.FileContractID // slot -> id it came back with and has not released
	holder   map[types.FileContractID]int
	lockReqs map[int]int
	persists map[int]int
	viol     []c15hViol
	real     map[types.FileContractID]func() // the manager's own closure of a hold whose unlock was not called yet
	// C04
	credits, debits []c15hAcct
	park            map[int]bool
	parked          map[int]chan struct{}
}

func newC15hCtl() *c15hCtl {
	return &c15hCtl{inLock: map[int]types.FileContractID{}, inUnlock: map[int]int{}, holds: map[int]types.FileContractID{},
		holder: map[types.FileContractID]int{}, real: map[types.FileContractID]func(){}, lockReqs: map[int]int{}, persists: map[int]int{}, park: map[int]bool{}, parked: map[int]chan struct{}{}}
}

func (c *c15hCtl) report(sig, detail string) { c.viol = append(c.viol, c15hViol{sig, detail}) }

func (c *c15hCtl) drain() []c15hViol {
	c.mu.Lock()
	defer c.mu.Unlock()
	v := c.viol
	c.viol = nil
	return v
}

func (c *c15hCtl) reqs(slot int) int {
	c.mu.Lock()
	defer c.mu.Unlock()
	return c.lockReqs[slot]
}

// view of one slot, taken in one look
type c15hView struct {
	inLock, holds, inUnlock bool
	id                      types.FileContractID
	reqs                    int
}

func (c *c15hCtl) view(slot int) (v c15hView) {
	c.mu.Lock()
	defer c.mu.Unlock()
	if id, ok := c.inLock[slot]; ok {
		v.inLock, v.id = true, id
	}
	if id, ok := c.holds[slot]; ok {
		v.holds, v.id = true, id
	}
	v.inUnlock = c.inUnlock[slot] > 0
	v.reqs = c.lockReqs[slot]
	return
}

// maybePark holds the caller in front of an account operation until letGo (C04 races).
func (c *c15hCtl) maybePark(slot int) {
	c.mu.Lock()
	if !c.park[slot] {
		c.mu.Unlock()
		return
	}
	delete(c.park, slot)
	ch := make(chan struct{})
	c.parked[slot] = ch
	c.mu.Unlock()
	<-ch
}

func (c *c15hCtl) isParked(slot int) bool {
	c.mu.Lock()
	defer c.mu.Unlock()
	return c.parked[slot] != nil
}

func (c *c15hCtl) letGo(slots ...int) {
	c.mu.Lock()
	var chs []chan struct{}
	for _, s := range slots {
		delete(c.park, s)
		if ch := c.parked[s]; ch != nil {
			chs = append(chs, ch)
			delete(c.parked, s)
		}
	}
	c.mu.Unlock()
	for _, ch := range chs {
		close(ch)
	}
}

// c15hGate is the Contractor of one slot's server: contracts.Manager, every lock-related call noted.
type c15hGate struct {
	*contracts.Manager
	slot int
	ctl  *c15hCtl
}

func (g *c15hGate) LockV2Contract(id types.FileContractID) (rhp4.RevisionState, func(), error) {
	c := g.ctl
	c.mu.Lock()
	c.inLock[g.slot] = id
	c.lockReqs[g.slot]++
	c.mu.Unlock()
	rs, unlock, err := g.Manager.LockV2Contract(id)
	c.mu.Lock()
	delete(c.inLock, g.slot)
	if err != nil {
		c.mu.Unlock()
		return rs, unlock, err
	}
	if h, ok := c.holder[id]; ok {
		c.report("two-holders-of-one-contract", fmt.Sprintf("caller %d came back from LockV2Contract with contract %v while caller %d holds it and has not called unlock", g.slot, id, h))
	}
	c.holder[id] = g.slot
	c.holds[g.slot] = id
	c.real[id] = unlock
	c.mu.Unlock()
	var calls atomic.Int32
	return rs, func() {
		n := calls.Add(1)
		c.mu.Lock()
		if n > 1 {
			c.report("unlock-called-twice", fmt.Sprintf("caller %d calls the unlock closure of contract %v for the %d. time", g.slot, id, n))
		} else if h, ok := c.holder[id]; !ok || h != g.slot {
			c.report("unlock-by-non-holder", fmt.Sprintf("caller %d calls unlock for contract %v, holder by the calls made: %v (present %v)", g.slot, id, h, ok))
		}
		if h, ok := c.holder[id]; ok && h == g.slot {
			delete(c.holder, id)
			delete(c.real, id)
		}
		if c.holds[g.slot] == id {
			delete(c.holds, g.slot)
		}
		c.inUnlock[g.slot]++
		c.mu.Unlock()
		defer func() {
			p := recover()
			c.mu.Lock()
			c.inUnlock[g.slot]--
			if p != nil {
				c.report("unlock-panicked", fmt.Sprintf("unlock of contract %v called by caller %d panicked: %v", id, g.slot, p))
			}
			c.mu.Unlock()
		}()
		unlock()
	}, nil
}

func (g *c15hGate) persist(what string, id types.FileContractID) {
	c := g.ctl
	c.mu.Lock()
	defer c.mu.Unlock()
	c.persists[g.slot]++
	if h, ok := c.holder[id]; !ok || h != g.slot {
		c.report("revise-outside-lock", fmt.Sprintf("caller %d hands contract %v to %s; holder of its lock by the calls made: %v (present %v)", g.slot, id, what, h, ok))
	}
}

func (g *c15hGate) ReviseV2Contract(id types.FileContractID, revision types.V2FileContract, roots []types.Hash256, usage proto4.Usage) error {
	g.persist("ReviseV2Contract", id)
	return g.Manager.ReviseV2Contract(id, revision, roots, usage)
}

func (g *c15hGate) RenewV2Contract(set rhp4.TransactionSet, usage proto4.Usage) error {
	var id types.FileContractID
	if n := len(set.Transactions); n > 0 && len(set.Transactions[n-1].FileContractResolutions) == 1 {
		id = types.FileContractID(set.Transactions[n-1].FileContractResolutions[0].Parent.ID)
	}
	g.persist("RenewV2Contract", id)
	return g.Manager.RenewV2Contract(set, usage)
}

func (g *c15hGate) CreditAccountsWithContract(deps []proto4.AccountDeposit, id types.FileContractID, revision types.V2FileContract, usage proto4.Usage) ([]types.Currency, error) {
	g.persist("CreditAccountsWithContract", id)
	g.ctl.maybePark(g.slot)
	b, err := g.Manager.CreditAccountsWithContract(deps, id, revision, usage)
	g.ctl.mu.Lock()
	for _, d := range deps {
		g.ctl.credits = append(g.ctl.credits, c15hAcct{d.Account, d.Amount, err == nil})
	}
	g.ctl.mu.Unlock()
	return b, err
}

func (g *c15hGate) DebitAccount(a proto4.Account, usage proto4.Usage) error {
	g.ctl.maybePark(g.slot)
	err := g.Manager.DebitAccount(a, usage)
	g.ctl.mu.Lock()
	g.ctl.debits = append(g.ctl.debits, c15hAcct{a, usage.RenterCost(), err == nil})
	g.ctl.mu.Unlock()
	return err
}

// ---- the world --------------------------------------------------------------------------------

const c15hSlots = 4 // handler slots (servers); free callers get gate ids above

type c15hWorld struct {
	t      *testing.T
	hn     *testutil.HostNode
	host   types.PrivateKey
	renter types.PrivateKey
	ctl    *c15hCtl
	tr     []rhp4.TransportClient
	gates  []*c15hGate // c15hSlots handler gates, then free-caller gates
	ids    []types.FileContractID
	bad    []bool // LockV2Contract fails (no such v2 contract)
	rv     []bool // revisable
	sector types.Hash256
	extra  int // contracts appended by directed cases
}

const (
	c15hConA       = 0 // good
	c15hConB       = 1 // good
	c15hConRenewed = 2 // renewed in the set-up: locks fine, not revisable
	c15hConUnknown = 3 // no such contract
	c15hConBase    = 4
)

func (w *c15hWorld) prices() proto4.HostPrices {
	s, err := rhp4.RPCSettings(context.Background(), w.tr[0])
	if err != nil {
		w.t.Fatal(err)
	}
	return s.Prices
}

func (w *c15hWorld) rev(con int) rhp4.ContractRevision {
	id := w.ids[con]
	src := id
	if w.bad[con] {
		src = w.ids[c15hConA] // something to sign; the host will not find the contract anyway
	}
	ct, err := w.hn.Contracts.V2Contract(src)
	if err != nil {
		w.t.Fatalf("harness: v2 contract %d: %v", con, err)
	}
	return rhp4.ContractRevision{ID: id, Revision: ct.V2FileContract}
}

func (w *c15hWorld) form() types.FileContractID {
	p := w.prices()
	cm := w.hn.Chain
	fs := &fundAndSign{w.hn.Wallet, w.renter}
	res, err := rhp4.RPCFormContract(context.Background(), w.tr[0], cm, fs, cm.TipState(), p, w.host.PublicKey(), w.hn.Wallet.Address(), proto4.RPCFormContractParams{
		RenterPublicKey: w.renter.PublicKey(), RenterAddress: w.hn.Wallet.Address(), Allowance: types.Siacoins(500), Collateral: types.Siacoins(100),
		ProofHeight: cm.Tip().Height + 150,
	})
	if err != nil {
		w.t.Fatalf("harness: form: %v", err)
	}
	if _, err := cm.AddV2PoolTransactions(res.FormationSet.Basis, res.FormationSet.Transactions); err != nil {
		w.t.Fatal(err)
	}
	testutil.MineAndSync(w.t, w.hn, types.VoidAddress, 2)
	return res.Contract.ID
}

func (w *c15hWorld) setup() {
	w.ids = []types.FileContractID{w.form(), w.form(), w.form(), {0xC1, 0x5E}}
	w.bad = []bool{false, false, false, true}
	w.rv = []bool{true, true, false, false}
	// one stored sector, appended to the good contracts twice
	acct := types.NewPrivateKeyFromSeed(bytes.Repeat([]byte{0x15}, 32))
	a := proto4.Account(acct.PublicKey())
	cs := w.hn.Chain.TipState()
	if _, err := rhp4.RPCFundAccounts(context.Background(), w.tr[0], cs, w.renter, w.rev(c15hConA), []proto4.AccountDeposit{{Account: a, Amount: types.Siacoins(5)}}); err != nil {
		w.t.Fatalf("harness: fund: %v", err)
	}
	p := w.prices()
	data := bytes.Repeat([]byte{0xC1, 0x5E}, proto4.LeafSize)
	res, err := rhp4.RPCWriteSector(context.Background(), w.tr[0], p, a.Token(acct, w.host.PublicKey()), bytes.NewReader(data), uint64(len(data)))
	if err != nil {
		w.t.Fatalf("harness: write sector: %v", err)
	}
	w.sector = res.Root
	for _, con := range []int{c15hConA, c15hConB, c15hConRenewed} {
		for k := 0; k < 2; k++ {
			if _, err := rhp4.RPCAppendSectors(context.Background(), w.tr[0], cs, p, w.renter, w.rev(con), []types.Hash256{w.sector}); err != nil {
				w.t.Fatalf("harness: append: %v", err)
			}
		}
	}
	// contract 2 is renewed now: LockV2Contract succeeds, Revisable = false from here on
	cm := w.hn.Chain
	fs := &fundAndSign{w.hn.Wallet, w.renter}
	ex := w.rev(c15hConRenewed)
	rres, err := rhp4.RPCRenewContract(context.Background(), w.tr[0], cm, fs, cm.TipState(), p, ex.Revision, proto4.RPCRenewContractParams{
		ContractID: ex.ID, Allowance: types.Siacoins(30), Collateral: types.Siacoins(5), ProofHeight: ex.Revision.ProofHeight + 10})
	if err != nil {
		w.t.Fatalf("harness: renew: %v", err)
	}
	if _, err := cm.AddV2PoolTransactions(rres.RenewalSet.Basis, rres.RenewalSet.Transactions); err != nil {
		w.t.Fatal(err)
	}
	testutil.MineAndSync(w.t, w.hn, types.VoidAddress, 2)
	// the oracle bits, checked against the manager uncontended
	for con := range w.ids {
		rs, unlock, err := w.hn.Contracts.LockV2Contract(w.ids[con])
		if (err != nil) != w.bad[con] {
			w.t.Fatalf("harness: contract %d: LockV2Contract error %v, expected failure=%v", con, err, w.bad[con])
		}
		if err == nil {
			unlock()
			if rs.Revisable != w.rv[con] {
				w.t.Fatalf("harness: contract %d: revisable %v, expected %v", con, rs.Revisable, w.rv[con])
			}
		}
	}
	// what the gates saw during the set-up RPCs stays with them: the first case reports it
}

func c15hServe(t *testing.T, hostKey types.PrivateKey, hn *testutil.HostNode, gate rhp4.Contractor) rhp4.TransportClient {
	rs := rhp4.NewServer(hostKey, hn.Chain, hn.Syncer, gate, hn.Wallet, hn.Settings, hn.Volumes, rhp4.WithPriceTableValidity(30*time.Minute))
	l, err := net.Listen("tcp", "127.0.0.1:0")
	if err != nil {
		t.Fatal(err)
	}
	t.Cleanup(func() { l.Close() })
	go siamux.Serve(l, rs, zap.NewNop())
	transport, err := siamux.Dial(context.Background(), l.Addr().String(), hostKey.PublicKey())
	if err != nil {
		t.Fatal(err)
	}
	t.Cleanup(func() { transport.Close() })
	return transport
}

// ---- the renter side --------------------------------------------------------------------------

const (
	c15hSent = iota
	c15hPaused
	c15hFinishing
	c15hDone
)

type c15hRPC struct {
	slot, kind, con, fault int
	state                  atomic.Int32
	rel                    chan int
	mu                     sync.Mutex
	stream                 net.Conn
	cancel                 context.CancelFunc
	dropped                bool
	err                    error
	before                 int
	basis                  rhp4.ContractRevision
	prices                 proto4.HostPrices
	accounts               []proto4.Account
	seq                    int
	pausedAt               atomic.Int64
	expired                bool // the host's stream deadline ended the stop, not the harness
	notSent                bool // the renter side failed before the request reached the handler
}

func (r *c15hRPC) drop() {
	r.mu.Lock()
	r.dropped = true
	s, c := r.stream, r.cancel
	r.mu.Unlock()
	if s != nil {
		s.Close()
	}
	if c != nil {
		c()
	}
}

func (r *c15hRPC) finish(err error) {
	r.err = err
	r.mu.Lock()
	s, c := r.stream, r.cancel
	r.mu.Unlock()
	if s != nil {
		s.Close()
	}
	if c != nil {
		c()
	}
	r.state.Store(c15hDone)
}

func (w *c15hWorld) dial(r *c15hRPC) (net.Conn, error) {
	s, err := w.tr[r.slot].DialStream()
	if err != nil {
		return nil, err
	}
	s.SetDeadline(time.Now().Add(90 * time.Second))
	r.mu.Lock()
	r.stream = s
	dropped := r.dropped
	r.mu.Unlock()
	if dropped {
		s.Close()
	}
	return s, nil
}

// pause: the handler has answered and now reads the renter's second message, holding the lock.
func (r *c15hRPC) pause() int {
	r.pausedAt.Store(time.Now().UnixNano())
	r.state.Store(c15hPaused)
	mode := <-r.rel
	r.state.Store(c15hFinishing)
	return mode
}

func (w *c15hWorld) sign(r *c15hRPC, h types.Hash256, good bool) types.Signature {
	if !good {
		return types.Signature{0xBA, 0xD5, 0x16}
	}
	return w.renter.SignHash(h)
}

// run performs r (its own goroutine).
func (w *c15hWorld) run(r *c15hRPC) {
	cs := w.hn.Chain.TipState()
	fc, id, p := r.basis.Revision, r.basis.ID, r.prices
	if r.fault == c15hPre {
		p.Signature = types.Signature{1, 2, 3}
	}
	sigOK := r.fault != c15hBadSig
	switch r.kind {
	case c15hRefresh, c15hRenew:
		w.runRenewal(r, p)
		return
	}
	s, err := w.dial(r)
	if err != nil {
		r.finish(err)
		return
	}
	switch r.kind {
	case c15hLatest:
		var resp proto4.RPCLatestRevisionResponse
		if err = proto4.WriteRequest(s, proto4.RPCLatestRevisionID, &proto4.RPCLatestRevisionRequest{ContractID: id}); err == nil {
			err = proto4.ReadResponse(s, &resp)
		}
		r.finish(err)
	case c15hFund:
		amount := types.Siacoins(1).Div64(uint64(1000 * (2 + r.seq%7)))
		if r.fault == c15hNoFunds {
			amount = fc.RenterOutput.Value.Add(types.Siacoins(1))
		}
		deps := []proto4.AccountDeposit{{Account: r.accounts[r.seq%len(r.accounts)], Amount: amount}}
		req := proto4.RPCFundAccountsRequest{ContractID: id, Deposits: deps}
		if revision, _, e := proto4.ReviseForFundAccounts(fc, amount); e == nil {
			req.RenterSignature = w.sign(r, cs.ContractSigHash(revision), sigOK)
		}
		var resp proto4.RPCFundAccountsResponse
		if err = proto4.WriteRequest(s, proto4.RPCFundAccountsID, &req); err == nil {
			err = proto4.ReadResponse(s, &resp)
		}
		r.finish(err)
	case c15hRoots:
		req := proto4.RPCSectorRootsRequest{Prices: p, ContractID: id, Offset: 0, Length: 1}
		if revision, _, e := proto4.ReviseForSectorRoots(fc, p, 1); e == nil {
			req.RenterSignature = w.sign(r, cs.ContractSigHash(revision), sigOK)
		}
		var resp proto4.RPCSectorRootsResponse
		if err = proto4.WriteRequest(s, proto4.RPCSectorRootsID, &req); err == nil {
			err = proto4.ReadResponse(s, &resp)
		}
		r.finish(err)
	case c15hFree:
		req := proto4.RPCFreeSectorsRequest{ContractID: id, Prices: p, Indices: []uint64{0}}
		req.ChallengeSignature = w.sign(r, req.ChallengeSigHash(fc.RevisionNumber+1), sigOK)
		var resp proto4.RPCFreeSectorsResponse
		if err = proto4.WriteRequest(s, proto4.RPCFreeSectorsID, &req); err == nil {
			err = proto4.ReadResponse(s, &resp)
		}
		if err != nil {
			r.finish(err)
			return
		}
		mode := r.pause()
		if mode == c15hRelDrop {
			r.finish(errors.New("dropped"))
			return
		}
		var second proto4.RPCFreeSectorsSecondResponse
		if revision, _, e := proto4.ReviseForFreeSectors(fc, p, resp.NewMerkleRoot, 1); e == nil {
			second.RenterSignature = w.sign(r, cs.ContractSigHash(revision), mode == c15hRelGood)
		}
		var third proto4.RPCFreeSectorsThirdResponse
		if err = proto4.WriteResponse(s, &second); err == nil {
			err = proto4.ReadResponse(s, &third)
		}
		r.finish(err)
	case c15hAppend:
		req := proto4.RPCAppendSectorsRequest{Prices: p, Sectors: []types.Hash256{w.sector}, ContractID: id}
		req.ChallengeSignature = w.sign(r, req.ChallengeSigHash(fc.RevisionNumber+1), sigOK)
		var resp proto4.RPCAppendSectorsResponse
		if err = proto4.WriteRequest(s, proto4.RPCAppendSectorsID, &req); err == nil {
			err = proto4.ReadResponse(s, &resp)
		}
		if err != nil {
			r.finish(err)
			return
		}
		mode := r.pause()
		if mode == c15hRelDrop {
			r.finish(errors.New("dropped"))
			return
		}
		var appended uint64
		for _, ok := range resp.Accepted {
			if ok {
				appended++
			}
		}
		var second proto4.RPCAppendSectorsSecondResponse
		if revision, _, e := proto4.ReviseForAppendSectors(fc, p, resp.NewMerkleRoot, appended); e == nil {
			second.RenterSignature = w.sign(r, cs.ContractSigHash(revision), mode == c15hRelGood)
		}
		var third proto4.RPCAppendSectorsThirdResponse
		if err = proto4.WriteResponse(s, &second); err == nil {
			err = proto4.ReadResponse(s, &third)
		}
		r.finish(err)
	case c15hReplenish:
		req := proto4.RPCReplenishAccountsRequest{Accounts: r.accounts, Target: types.Siacoins(1).Div64(uint64(1000 * (1 + r.seq%3))), ContractID: id}
		req.ChallengeSignature = w.sign(r, req.ChallengeSigHash(fc.RevisionNumber), sigOK)
		var resp proto4.RPCReplenishAccountsResponse
		if err = proto4.WriteRequest(s, proto4.RPCReplenishAccountsID, &req); err == nil {
			err = proto4.ReadResponse(s, &resp)
		}
		if err != nil || resp.TotalCost().IsZero() {
			r.finish(err)
			return
		}
		mode := r.pause()
		if mode == c15hRelDrop {
			r.finish(errors.New("dropped"))
			return
		}
		var second proto4.RPCReplenishAccountsSecondResponse
		if revision, _, e := proto4.ReviseForReplenish(fc, resp.TotalCost()); e == nil {
			second.RenterSignature = w.sign(r, cs.ContractSigHash(revision), mode == c15hRelGood)
		}
		var third proto4.RPCReplenishAccountsThirdResponse
		if err = proto4.WriteResponse(s, &second); err == nil {
			err = proto4.ReadResponse(s, &third)
		}
		r.finish(err)
	}
}

// c15hSigner is the renter's signer for coreutils' refresh / renew client: it stops where the
// client has the host's first answer and is about to sign (the handler then waits for the
// signatures, holding the lock).
type c15hSigner struct {
	fs    *fundAndSign
	r     *c15hRPC
	bad   bool // bad challenge signature
	after bool
	mode  int
}

func (s *c15hSigner) FundV2Transaction(txn *types.V2Transaction, amount types.Currency) (types.ChainIndex, []int, error) {
	return s.fs.FundV2Transaction(txn, amount)
}
func (s *c15hSigner) ReleaseInputs(txns []types.V2Transaction) { s.fs.ReleaseInputs(txns) }
func (s *c15hSigner) SignV2Inputs(txn *types.V2Transaction, toSign []int) {
	// called once, after the host's inputs have arrived
	s.mode = s.r.pause()
	s.after = true
	if s.mode == c15hRelDrop {
		s.r.drop()
	}
	s.fs.SignV2Inputs(txn, toSign)
}
func (s *c15hSigner) SignHash(h types.Hash256) types.Signature {
	if (!s.after && s.bad) || (s.after && s.mode != c15hRelGood) {
		return types.Signature{0xBA, 0xD5, 0x16}
	}
	return s.fs.SignHash(h)
}

func (w *c15hWorld) runRenewal(r *c15hRPC, p proto4.HostPrices) {
	ctx, cancel := context.WithTimeout(context.Background(), 90*time.Second)
	r.mu.Lock()
	r.cancel = cancel
	dropped := r.dropped
	r.mu.Unlock()
	if dropped {
		cancel()
	}
	cm := w.hn.Chain
	sg := &c15hSigner{fs: &fundAndSign{w.hn.Wallet, w.renter}, r: r, bad: r.fault == c15hBadSig}
	ex := r.basis
	var err error
	var set rhp4.TransactionSet
	if r.kind == c15hRefresh {
		var res rhp4.RPCRefreshContractResult
		res, err = rhp4.RPCRefreshContract(ctx, w.tr[r.slot], cm, sg, cm.TipState(), p, ex.Revision, proto4.RPCRefreshContractParams{
			ContractID: ex.ID, Allowance: types.Siacoins(uint32(20 + r.seq%30)), Collateral: types.Siacoins(uint32(1 + r.seq%7))})
		set = res.RenewalSet
	} else {
		var res rhp4.RPCRenewContractResult
		res, err = rhp4.RPCRenewContract(ctx, w.tr[r.slot], cm, sg, cm.TipState(), p, ex.Revision, proto4.RPCRenewContractParams{
			ContractID: ex.ID, Allowance: types.Siacoins(uint32(20 + r.seq%30)), Collateral: types.Siacoins(uint32(1 + r.seq%7)), ProofHeight: ex.Revision.ProofHeight + uint64(1+r.seq%20)})
		set = res.RenewalSet
	}
	if err == nil {
		if _, e := cm.AddV2PoolTransactions(set.Basis, set.Transactions); e != nil {
			w.t.Errorf("harness: renewal set: %v", e)
		}
	}
	r.finish(err)
}

// ---- the schedule driver ----------------------------------------------------------------------

const (
	c15hIdle = iota
	c15hCalling
	c15hHolding
	c15hMgrErr
)

type c15hUser struct {
	handler bool
	gate    *c15hGate
	rpc     *c15hRPC // handler: the RPC in flight or last finished
	// free caller
	status   atomic.Int32
	id       int
	unlock   func()
	everWait bool
}

type c15hRun struct {
	w        *c15hWorld
	em       *verifEmitter
	rng      *rand.Rand
	us       []*c15hUser
	accounts []proto4.Account
	akeys    []types.PrivateKey
	timeout  time.Duration
	failed   bool
	fatal    bool
	parked   int
	seq      int
	heldSeen int
	cmu      sync.Mutex
	counts   []string
	extra    []string
}

// count may be called from concurrent actions; flushed by par
func (r *c15hRun) count(k string) {
	r.cmu.Lock()
	r.counts = append(r.counts, k)
	r.cmu.Unlock()
}

func (r *c15hRun) nextSeq() int {
	r.cmu.Lock()
	defer r.cmu.Unlock()
	r.seq++
	return r.seq
}

func c15hN(con int) string { return fmt.Sprintf("%d%%N", con+1) }

func (r *c15hRun) monitor(sig, detail string) {
	r.em.Monitor(sig, detail)
	r.failed = true
}

// hEnter starts RPC kind on contract con with fault in handler slot t.
func (r *c15hRun) hEnter(t, kind, con, fault int) string {
	u := r.us[t]
	rpc := &c15hRPC{slot: u.gate.slot, kind: kind, con: con, fault: fault, rel: make(chan int, 1), before: r.w.ctl.reqs(u.gate.slot),
		basis: r.w.rev(con), prices: r.w.prices(), accounts: r.accounts, seq: r.nextSeq()}
	u.rpc = rpc
	u.id = con
	go r.w.run(rpc)
	r.count(fmt.Sprintf("rhp4:%s,fault=%s,contract=%s", c15hKindName[kind], c15hFaultName[fault], r.conName(con)))
	if fault == c15hPre {
		return fmt.Sprintf("UAct %d (R4Pre %s)", t, c15hKindTerm[kind])
	}
	if fault == c15hDropQueued {
		// the request is on its way; as soon as the handler has asked for the lock the renter hangs up
		deadline := time.Now().Add(r.timeout)
		for r.w.ctl.reqs(u.gate.slot) == rpc.before && rpc.state.Load() != c15hDone {
			if time.Now().After(deadline) {
				r.fatal = true
				r.monitor("rhp4-rpc-did-not-return", fmt.Sprintf("slot %d %s: the handler neither asked for the lock nor answered", t, c15hKindName[kind]))
				break
			}
			time.Sleep(50 * time.Microsecond)
		}
		entered := r.w.ctl.reqs(u.gate.slot) != rpc.before
		rpc.drop()
		// a client waiting for the first answer returns on the closed stream; one stopped before its
		// second message is let go
		select {
		case rpc.rel <- c15hRelDrop:
		default:
		}
		if !entered {
			// the renter side gave up before anything reached the handler (it could not fund its
			// inputs, the stream could not be opened): a return before the lock as far as the host goes
			rpc.notSent = true
			r.count("rhp4:request-never-sent")
			return fmt.Sprintf("UAct %d (R4Pre %s)", t, c15hKindTerm[kind])
		}
	}
	return fmt.Sprintf("UAct %d (R4Enter %s %s %s %s)", t, c15hKindTerm[kind], c15hN(con), coqBool(r.w.bad[con]), coqBool(r.w.rv[con]))
}

func (r *c15hRun) conName(con int) string {
	switch {
	case con == c15hConRenewed:
		return "renewed"
	case con == c15hConUnknown:
		return "unknown"
	case con >= c15hConBase:
		return "fresh"
	}
	return "good"
}

// hRelease lets a stopped handler go on: the second message (good / badly signed) or a hang-up.
func (r *c15hRun) hRelease(t, mode int) string {
	u := r.us[t]
	r.count(fmt.Sprintf("rhp4:release,%s,mode=%d", c15hKindName[u.rpc.kind], mode))
	u.rpc.rel <- mode
	// the renter side has left its stop when this returns (the status is read afterwards)
	deadline := time.Now().Add(r.timeout)
	for u.rpc.state.Load() == c15hPaused && time.Now().Before(deadline) {
		runtime.Gosched()
	}
	return fmt.Sprintf("UAct %d R4Renter", t)
}

func (r *c15hRun) freeLock(t, con int) string {
	u := r.us[t]
	u.id = con
	u.status.Store(c15hCalling)
	go func() {
		_, unlock, err := u.gate.LockV2Contract(r.w.ids[con])
		if err != nil {
			u.status.Store(c15hMgrErr)
			return
		}
		u.unlock = unlock
		u.status.Store(c15hHolding)
	}()
	r.count("free:lock," + r.conName(con))
	return fmt.Sprintf("UBase (ALock %d %s false %s)", t, c15hN(con), coqBool(r.w.bad[con]))
}

func (r *c15hRun) freeUnlock(t int) string {
	u := r.us[t]
	unlock := u.unlock
	u.unlock = nil
	u.status.Store(c15hIdle)
	done := make(chan struct{})
	go func() { defer close(done); unlock() }()
	select {
	case <-done:
	case <-time.After(r.timeout):
		r.monitor("unlock-by-holder-blocked", fmt.Sprintf("free caller %d contract %d", t, u.id))
	}
	r.count("free:unlock")
	return fmt.Sprintf("UBase (AUnlock %d)", t)
}

// status of user t in one look: "idle", "wait", "held", "hold" (free), "mgrerr", or "" (in motion)
func (r *c15hRun) status(t int) (st string, why string) {
	u := r.us[t]
	if !u.handler {
		switch u.status.Load() {
		case c15hIdle:
			return "idle", ""
		case c15hCalling:
			return "wait", ""
		case c15hHolding:
			return "hold", ""
		default:
			return "mgrerr", ""
		}
	}
	var rs int32 = c15hDone
	if u.rpc != nil {
		rs = u.rpc.state.Load()
	}
	v := r.w.ctl.view(u.gate.slot)
	// a second look at the renter side: it must not have moved while the gate was read
	if u.rpc != nil && u.rpc.state.Load() != rs {
		return "", "rhp4-rpc-did-not-return"
	}
	switch {
	case v.inLock:
		return "wait", ""
	case v.holds && rs == c15hPaused:
		return "held", ""
	case v.holds:
		return "", "handler-returned-holding-lock"
	case v.inUnlock:
		return "", "unlock-by-holder-blocked"
	case rs == c15hDone:
		if u.rpc != nil && u.rpc.fault == c15hDropQueued && v.reqs == u.rpc.before && !u.rpc.notSent {
			return "", "rhp4-rpc-did-not-return"
		}
		return "idle", ""
	case rs == c15hPaused:
		// the renter has the first answer, the gate saw the handler neither holding nor asking:
		// only possible if a handler answers before it locks or after it released — or if the
		// machine stalled so long that the host's 30 s stream deadline (server.go:1126) ended the
		// handler's read: that is the model's R4Renter, recorded as such
		if time.Since(time.Unix(0, u.rpc.pausedAt.Load())) > 28*time.Second {
			if !u.rpc.expired {
				u.rpc.expired = true
				r.extra = append(r.extra, fmt.Sprintf("UAct %d R4Renter", t))
				r.count("harness:stream-deadline-ended-a-stopped-handler")
				select {
				case u.rpc.rel <- c15hRelDrop:
				default:
				}
			}
			return "", "rhp4-rpc-did-not-return"
		}
		return "", "handler-answered-without-lock"
	default:
		return "", "rhp4-rpc-did-not-return"
	}
}

func (r *c15hRun) table() map[int][2]int { return r.w.hn.Contracts.VerifC15UTable(r.w.ids) }

func (r *c15hRun) quiescent() (ok bool, sig, detail string, definite bool) {
	n := len(r.w.ids)
	holders := make([]int, n)
	waiters := make([]int, n)
	for t := range r.us {
		st, why := r.status(t)
		switch st {
		case "":
			return false, why, fmt.Sprintf("user %d (%s)", t, r.describe(t)), false
		case "wait":
			waiters[r.us[t].id]++
		case "held", "hold":
			holders[r.us[t].id]++
		}
	}
	for id := 0; id < n; id++ {
		if holders[id] > 1 {
			return false, "two-holders-of-one-contract", fmt.Sprintf("contract %d: %d callers came back from LockV2Contract with it and none has called unlock", id, holders[id]), true
		}
	}
	snap := r.table()
	if snap == nil {
		r.fatal = true
		return false, "locker-mutex-stuck", "lr.mu stays held", true
	}
	for k, e := range snap {
		if k >= n {
			return false, "lock-table-disagrees-with-callers", fmt.Sprintf("entry for an id nobody asked for: n=%d", e[0]), false
		}
	}
	for id := 0; id < n; id++ {
		e, ok := snap[id]
		switch {
		case holders[id]+waiters[id] == 0 && ok:
			return false, "lock-leaked-after-all-returned", fmt.Sprintf("contract %d: nobody has or wants it, entry n=%d len(ch)=%d", id, e[0], e[1]), false
		case holders[id]+waiters[id] == 0:
		case !ok:
			return false, "lock-table-disagrees-with-callers", fmt.Sprintf("contract %d: %d holders %d waiters, no entry", id, holders[id], waiters[id]), false
		case holders[id] == 0:
			return false, "waiter-neither-served-nor-cancelled", fmt.Sprintf("contract %d: no holder, %d inside LockV2Contract, n=%d len(ch)=%d", id, waiters[id], e[0], e[1]), false
		case e[1] != 0 || e[0] != holders[id]+waiters[id]:
			return false, "lock-table-disagrees-with-callers", fmt.Sprintf("contract %d: n=%d len(ch)=%d, %d holders + %d waiters", id, e[0], e[1], holders[id], waiters[id]), false
		}
	}
	return true, "", "", false
}

func (r *c15hRun) describe(t int) string {
	u := r.us[t]
	if !u.handler {
		return fmt.Sprintf("free caller, status %d, contract %d", u.status.Load(), u.id)
	}
	if u.rpc == nil {
		return "handler slot, no RPC"
	}
	v := r.w.ctl.view(u.gate.slot)
	return fmt.Sprintf("%s fault=%s contract %d, renter side %d, gate inLock=%v holds=%v inUnlock=%v err=%v", c15hKindName[u.rpc.kind], c15hFaultName[u.rpc.fault], u.rpc.con,
		u.rpc.state.Load(), v.inLock, v.holds, v.inUnlock, u.rpc.err)
}

func (r *c15hRun) observe() string {
	var st []string
	for t, u := range r.us {
		s, _ := r.status(t)
		if s == "wait" && !u.everWait {
			u.everWait = true
			r.parked++
		}
		if s == "held" {
			r.heldSeen++
		}
		switch {
		case u.handler && s == "idle":
			st = append(st, "OBIdle")
		case u.handler && s == "wait":
			st = append(st, "OBWait "+c15hN(u.id))
		case u.handler && s == "held":
			st = append(st, "OBHeld "+c15hN(u.id))
		case !u.handler && s == "idle":
			st = append(st, "OF SIdle")
		case !u.handler && s == "wait":
			st = append(st, "OF (SWait "+c15hN(u.id)+")")
		case !u.handler && s == "hold":
			st = append(st, "OF (SHold "+c15hN(u.id)+")")
		case !u.handler && s == "mgrerr":
			st = append(st, "OF SMgrErr")
		default:
			st = append(st, "OTransient")
		}
	}
	snap := r.table()
	keys := make([]int, 0, len(snap))
	for k := range snap {
		keys = append(keys, k)
	}
	sort.Ints(keys)
	var rows []string
	for _, k := range keys {
		rows = append(rows, fmt.Sprintf("(%s, (%d)%%Z, (%d)%%Z)", c15hN(k), snap[k][0], snap[k][1]))
	}
	return "(" + coqList(st) + ", " + coqList(rows) + ")"
}

func (r *c15hRun) drainGate() {
	for _, v := range r.w.ctl.drain() {
		r.monitor(v.sig, v.detail)
	}
}

func (r *c15hRun) settle() string {
	deadline := time.Now().Add(r.timeout)
	stable := 0
	last := ""
	for spins := 0; ; spins++ {
		ok, sig, detail, definite := r.quiescent()
		if ok {
			obs := r.observe()
			if obs == last {
				stable++
			} else {
				stable, last = 1, obs
			}
			if stable >= 2 {
				break
			}
		} else {
			stable = 0
			if definite || r.fatal || time.Now().After(deadline) {
				r.monitor(sig, detail)
				break
			}
		}
		if spins < 50 {
			runtime.Gosched()
		} else {
			time.Sleep(30 * time.Microsecond)
		}
	}
	r.drainGate()
	return r.observe()
}

func (r *c15hRun) par(acts []func() string, held bool) {
	terms := make([]string, len(acts))
	if len(acts) == 1 {
		terms[0] = acts[0]()
	} else {
		var mu *sync.Mutex
		if held {
			mu = r.w.hn.Contracts.VerifC15UMu()
			mu.Lock()
		}
		var wg sync.WaitGroup
		for i := range acts {
			wg.Add(1)
			go func(i int) {
				defer wg.Done()
				terms[i] = acts[i]()
			}(i)
		}
		if held {
			time.Sleep(time.Duration(100+r.rng.Intn(400)) * time.Microsecond)
			mu.Unlock()
		}
		wg.Wait()
	}
	r.cmu.Lock()
	for _, c := range r.counts {
		r.em.Count(c)
	}
	r.counts = r.counts[:0]
	r.cmu.Unlock()
	obs := r.settle()
	terms = append(terms, r.extra...)
	r.extra = nil
	r.cmu.Lock()
	for _, c := range r.counts {
		r.em.Count(c)
	}
	r.counts = r.counts[:0]
	r.cmu.Unlock()
	r.em.Step("UPar "+coqList(terms), obs)
}

func (r *c15hRun) one(f func() string) { r.par([]func() string{f}, false) }

// ---- schedules

func (r *c15hRun) pickCon(prefer int) int {
	if prefer >= 0 && r.rng.Intn(4) != 0 {
		return prefer
	}
	switch x := r.rng.Intn(20); {
	case x < 9:
		return c15hConA
	case x < 16:
		return c15hConB
	case x < 18:
		return c15hConRenewed
	default:
		return c15hConUnknown
	}
}

type c15hAct struct {
	kind string
	run  func() string
}

func (r *c15hRun) candidate(t, prefer int) *c15hAct {
	u := r.us[t]
	st, _ := r.status(t)
	if !u.handler {
		switch st {
		case "idle", "mgrerr":
			con := r.pickCon(prefer)
			return &c15hAct{"free-lock", func() string { return r.freeLock(t, con) }}
		case "hold":
			return &c15hAct{"free-unlock", func() string { return r.freeUnlock(t) }}
		}
		return nil
	}
	switch st {
	case "idle":
		kind := r.rng.Intn(c15hKinds)
		if kind == c15hRefresh || kind == c15hRenew {
			// the expensive kinds a little less often
			if r.rng.Intn(2) == 0 {
				kind = r.rng.Intn(c15hKinds)
			}
		}
		con := r.pickCon(prefer)
		fs := c15hFaultsOf(kind)
		fault := fs[0]
		if r.rng.Intn(5) < 2 {
			fault = fs[r.rng.Intn(len(fs))]
		}
		return &c15hAct{"enter", func() string { return r.hEnter(t, kind, con, fault) }}
	case "held":
		mode := r.rng.Intn(3)
		if k := u.rpc.kind; (k == c15hRefresh || k == c15hRenew) && mode == c15hRelGood {
			// a completed renewal would use the contract up for the following cases
			mode = c15hRelBadSig
		}
		return &c15hAct{"release", func() string { return r.hRelease(t, mode) }}
	}
	return nil
}

func (r *c15hRun) generated(steps int) {
	for i := 0; i < steps && !r.failed; i++ {
		prefer := -1
		for _, t := range r.rng.Perm(len(r.us)) {
			if st, _ := r.status(t); st == "held" || st == "hold" {
				prefer = r.us[t].id
				break
			}
		}
		if r.rng.Intn(100) < 30 {
			k := 2 + r.rng.Intn(2)
			var acts []func() string
			var kinds []string
			for _, t := range r.rng.Perm(len(r.us)) {
				if len(acts) == k {
					break
				}
				if a := r.candidate(t, prefer); a != nil {
					acts = append(acts, a.run)
					kinds = append(kinds, a.kind)
				}
			}
			if len(acts) < 2 {
				continue
			}
			sort.Strings(kinds)
			r.em.Count("par:" + strings.Join(kinds, "+"))
			r.par(acts, r.rng.Intn(2) == 0)
			continue
		}
		t := r.rng.Intn(len(r.us))
		a := r.candidate(t, prefer)
		if a == nil {
			continue
		}
		r.em.Count("op:" + a.kind)
		r.one(a.run)
	}
}

// finish: everybody lets go; then nothing may be left and every contract must be lockable at once.
func (r *c15hRun) finish() {
	for round := 0; round < 8*len(r.us) && !r.failed; round++ {
		progress := false
		for t := range r.us {
			if r.failed {
				return
			}
			switch st, _ := r.status(t); st {
			case "held":
				mode := c15hRelBadSig + r.rng.Intn(2)
				r.one(func() string { return r.hRelease(t, mode) })
				progress = true
			case "hold":
				r.one(func() string { return r.freeUnlock(t) })
				progress = true
			}
		}
		if !progress {
			break
		}
	}
	if r.failed {
		return
	}
	for t := range r.us {
		if st, _ := r.status(t); st != "idle" && st != "mgrerr" {
			r.monitor("waiter-neither-served-nor-cancelled", fmt.Sprintf("everything was released, user %d is still %q (%s)", t, st, r.describe(t)))
			return
		}
	}
	if snap := r.table(); snap == nil || len(snap) != 0 {
		r.monitor("lock-leaked-after-all-returned", fmt.Sprintf("all callers returned and released, %d entries left: %v", len(snap), snap))
		return
	}
	f := -1
	for t, u := range r.us {
		if !u.handler {
			f = t
		}
	}
	for con := 0; con < len(r.w.ids) && f >= 0 && !r.failed; con++ {
		r.one(func() string { return r.freeLock(f, con) })
		if r.failed {
			return
		}
		want := int32(c15hHolding)
		if r.w.bad[con] {
			want = c15hMgrErr
		}
		if got := r.us[f].status.Load(); got != want {
			r.monitor("lock-leaked-after-all-returned", fmt.Sprintf("contract %d cannot be locked at once after every caller returned: status %d", con, got))
			return
		}
		if want == c15hHolding {
			r.one(func() string { return r.freeUnlock(f) })
		}
	}
}

// abort: best effort after a failed case.
func (r *c15hRun) abort() {
	for _, u := range r.us {
		if u.handler && u.rpc != nil {
			select {
			case u.rpc.rel <- c15hRelDrop:
			default:
			}
			u.rpc.drop()
		}
		if !u.handler && u.unlock != nil {
			func() { defer func() { recover() }(); u.unlock() }()
		}
	}
	// holds nobody will release any more (that is what was reported) are released with the manager's
	// own closure, so that callers stranded behind them come back and the node can be closed
	for round := 0; round < 40; round++ {
		time.Sleep(50 * time.Millisecond)
		r.w.ctl.mu.Lock()
		var fs []func()
		for id, f := range r.w.ctl.real {
			fs = append(fs, f)
			delete(r.w.ctl.real, id)
			delete(r.w.ctl.holder, id)
		}
		r.w.ctl.mu.Unlock()
		for _, f := range fs {
			func() { defer func() { recover() }(); f() }()
		}
		for _, u := range r.us {
			if u.handler && u.rpc != nil {
				select {
				case u.rpc.rel <- c15hRelDrop:
				default:
				}
			}
		}
		if snap := r.table(); len(fs) == 0 && snap != nil && len(snap) == 0 && round > 4 {
			break
		}
	}
	// entries that stay as they are belong to holds lost inside the manager: Manager.Unlock (the
	// deprecated public call, the same locker) hands them on until the table is empty
	for round := 0; round < 100; round++ {
		snap := r.table()
		if snap == nil || len(snap) == 0 {
			break
		}
		time.Sleep(100 * time.Millisecond)
		again := r.table()
		for k, e := range snap {
			if k < len(r.w.ids) && again[k] == e {
				func() { defer func() { recover() }(); r.w.hn.Contracts.Unlock(r.w.ids[k]) }()
			}
		}
	}
	if snap := r.table(); snap == nil || len(snap) != 0 {
		r.w.hn.Contracts.VerifC15UResetLocks()
	}
	r.w.ctl.mu.Lock()
	r.w.ctl.real = map[types.FileContractID]func(){}
	r.w.ctl.holder = map[types.FileContractID]int{}
	r.w.ctl.holds = map[int]types.FileContractID{}
	r.w.ctl.inLock = map[int]types.FileContractID{}
	r.w.ctl.viol = nil
	r.w.ctl.mu.Unlock()
}

// ---- directed schedules: users are handler slots 0..h-1, then free callers

type c15hDirected struct {
	handlers, free int
	fresh          bool // forms a contract of its own (index c15hConBase)
	run            func(r *c15hRun)
}

func (r *c15hRun) enter(t, kind, con, fault int) {
	if !r.failed {
		r.one(func() string { return r.hEnter(t, kind, con, fault) })
	}
}
func (r *c15hRun) release(t, mode int) {
	if st, _ := r.status(t); st == "held" && !r.failed && !r.us[t].rpc.expired {
		r.one(func() string { return r.hRelease(t, mode) })
	}
}
func (r *c15hRun) flock(t, con int) {
	if !r.failed {
		r.one(func() string { return r.freeLock(t, con) })
	}
}
func (r *c15hRun) funlock(t int) {
	if st, _ := r.status(t); st == "hold" && !r.failed {
		r.one(func() string { return r.freeUnlock(t) })
	}
}

// releaseAll lets every stopped handler go (mode), repeatedly, until none is stopped.
func (r *c15hRun) releaseAll(mode int) {
	for k := 0; k < 12 && !r.failed; k++ {
		any := false
		for t := range r.us {
			if st, _ := r.status(t); st == "held" {
				r.release(t, mode)
				any = true
			}
		}
		if !any {
			return
		}
	}
}

var c15hDirectedCases = []c15hDirected{
	// 0: a free caller holds; append, fund, sector roots queue up; hand-off chain; the append stops for its
	// second message and is completed
	{3, 1, false, func(r *c15hRun) {
		r.flock(3, c15hConA)
		r.enter(0, c15hAppend, c15hConA, c15hOK)
		r.enter(1, c15hFund, c15hConA, c15hOK)
		r.enter(2, c15hRoots, c15hConA, c15hOK)
		r.funlock(3)
		r.releaseAll(c15hRelGood)
	}},
	// 1: the contract that is not revisable: lockContractForRevision releases without a defer; latest
	// revision releases before it answers
	{3, 1, false, func(r *c15hRun) {
		r.flock(3, c15hConRenewed)
		r.enter(0, c15hAppend, c15hConRenewed, c15hOK)
		r.enter(1, c15hLatest, c15hConRenewed, c15hOK)
		r.enter(2, c15hRenew, c15hConRenewed, c15hOK)
		r.funlock(3)
		r.enter(0, c15hLatest, c15hConRenewed, c15hOK)
	}},
	// 2: no such contract: the manager's error path, alone and behind each other
	{3, 1, false, func(r *c15hRun) {
		r.enter(0, c15hLatest, c15hConUnknown, c15hOK)
		r.enter(1, c15hFree, c15hConUnknown, c15hOK)
		r.par([]func() string{
			func() string { return r.hEnter(0, c15hFund, c15hConUnknown, c15hOK) },
			func() string { return r.hEnter(1, c15hReplenish, c15hConUnknown, c15hOK) },
			func() string { return r.hEnter(2, c15hLatest, c15hConUnknown, c15hOK) },
			func() string { return r.freeLock(3, c15hConUnknown) },
		}, true)
	}},
	// 3: renters hang up while their handlers are queued: the handlers stay queued (no context reaches
	// the lock), are served later and release
	{3, 1, false, func(r *c15hRun) {
		r.flock(3, c15hConA)
		r.enter(0, c15hFund, c15hConA, c15hDropQueued)
		r.enter(1, c15hAppend, c15hConA, c15hDropQueued)
		r.enter(2, c15hLatest, c15hConA, c15hDropQueued)
		r.funlock(3)
	}},
	// 4: a handler stopped for its second message holds the lock; others and a free caller queue; released by
	// a bad signature; the next one stops ...
	{3, 1, false, func(r *c15hRun) {
		r.enter(0, c15hFree, c15hConB, c15hOK)
		r.enter(1, c15hAppend, c15hConB, c15hOK)
		r.enter(2, c15hReplenish, c15hConB, c15hOK)
		r.flock(3, c15hConB)
		r.release(0, c15hRelBadSig)
		r.releaseAll(c15hRelDrop)
		r.funlock(3)
	}},
	// 5: a renewal stopped holding the lock, two handlers queued, the renter hangs up
	{3, 1, false, func(r *c15hRun) {
		r.enter(0, c15hRenew, c15hConA, c15hOK)
		r.enter(1, c15hRoots, c15hConA, c15hOK)
		r.enter(2, c15hRefresh, c15hConA, c15hOK)
		r.release(0, c15hRelDrop)
		r.releaseAll(c15hRelBadSig)
	}},
	// 6: a refresh stopped, released by bad signatures, while a latest-revision request and a free caller wait
	{2, 2, false, func(r *c15hRun) {
		r.enter(0, c15hRefresh, c15hConB, c15hOK)
		r.enter(1, c15hLatest, c15hConB, c15hOK)
		r.flock(2, c15hConB)
		r.flock(3, c15hConA)
		r.release(0, c15hRelBadSig)
		r.funlock(2)
		r.funlock(3)
	}},
	// 7: a refresh COMPLETES under contention on a contract of its own: the queued append then finds the
	// contract not revisable, the queued sector-roots request too
	{3, 1, true, func(r *c15hRun) {
		r.enter(0, c15hRefresh, c15hConBase, c15hOK)
		r.enter(1, c15hAppend, c15hConBase, c15hOK)
		r.enter(2, c15hRoots, c15hConBase, c15hOK)
		r.release(0, c15hRelGood)
		r.w.rv[c15hConBase] = false
		r.enter(0, c15hFund, c15hConBase, c15hOK)
	}},
	// 8: four callers arrive at a free contract together (lr.mu held while they start)
	{3, 1, false, func(r *c15hRun) {
		r.par([]func() string{
			func() string { return r.hEnter(0, c15hFund, c15hConA, c15hOK) },
			func() string { return r.hEnter(1, c15hFree, c15hConA, c15hOK) },
			func() string { return r.hEnter(2, c15hRoots, c15hConA, c15hOK) },
			func() string { return r.freeLock(3, c15hConA) },
		}, true)
		r.releaseAll(c15hRelGood)
		r.funlock(3)
		r.releaseAll(c15hRelGood)
	}},
	// 9: failures after the lock with waiters behind: bad challenge, bad renter signature, impossible deposit
	{4, 1, false, func(r *c15hRun) {
		r.flock(4, c15hConB)
		r.enter(0, c15hAppend, c15hConB, c15hBadSig)
		r.enter(1, c15hFund, c15hConB, c15hNoFunds)
		r.enter(2, c15hRoots, c15hConB, c15hBadSig)
		r.enter(3, c15hRenew, c15hConB, c15hBadSig)
		r.funlock(4)
	}},
	// 10: two contracts side by side
	{4, 1, false, func(r *c15hRun) {
		r.enter(0, c15hAppend, c15hConA, c15hOK)
		r.enter(1, c15hFree, c15hConB, c15hOK)
		r.enter(2, c15hFund, c15hConA, c15hOK)
		r.enter(3, c15hFund, c15hConB, c15hOK)
		r.flock(4, c15hConA)
		r.release(1, c15hRelGood)
		r.release(0, c15hRelGood)
		r.funlock(4)
	}},
	// 11: requests refused before the lock while somebody holds it: they return at once, nothing queues
	{3, 1, false, func(r *c15hRun) {
		r.flock(3, c15hConA)
		r.enter(0, c15hAppend, c15hConA, c15hPre)
		r.enter(1, c15hRenew, c15hConA, c15hPre)
		r.enter(2, c15hRefresh, c15hConA, c15hPre)
		r.funlock(3)
	}},
	// 12: a stopped replenish released by its good second message while a dropped-while-queued fund waits
	{3, 1, false, func(r *c15hRun) {
		r.enter(0, c15hReplenish, c15hConA, c15hOK)
		r.enter(1, c15hFund, c15hConA, c15hDropQueued)
		r.enter(2, c15hFree, c15hConA, c15hDropQueued)
		r.flock(3, c15hConA)
		r.release(0, c15hRelGood)
		r.funlock(3)
	}},
}

// ---- C04: two RHP4 RPCs racing on one account -------------------------------------------------

func (r *c15hRun) balance(a proto4.Account) types.Currency {
	b, err := r.w.hn.Contracts.AccountBalance(a)
	if err != nil {
		r.w.t.Fatalf("harness: balance: %v", err)
	}
	return b
}

func (r *c15hRun) waitFor(what string, pred func() bool) bool {
	deadline := time.Now().Add(r.timeout)
	for !pred() {
		if time.Now().After(deadline) {
			r.monitor("rhp4-rpc-did-not-return", "c04 phase: timed out waiting for "+what)
			return false
		}
		time.Sleep(100 * time.Microsecond)
	}
	return true
}

// accountRaces: the account starts at zero (fresh key per case).
func (r *c15hRun) accountRaces() {
	w := r.w
	ctl := w.ctl
	ctl.mu.Lock()
	ctl.credits, ctl.debits = nil, nil
	ctl.mu.Unlock()
	// an account of its own: nothing before this phase has touched it
	key := r.akeys[2]
	acc := proto4.Account(key.PublicKey())
	token := func() proto4.AccountToken { return acc.Token(key, w.host.PublicKey()) }
	p := w.prices()
	cs := w.hn.Chain.TipState()
	n := uint64(proto4.LeafSize * (1 + r.rng.Intn(4)))
	data := bytes.Repeat([]byte{0xC0, 0x04}, int(n))[:n]
	cost := p.RPCWriteSectorCost(n).RenterCost()
	fund := func(slot int, amount types.Currency) error {
		_, err := rhp4.RPCFundAccounts(context.Background(), w.tr[slot], cs, w.renter, w.rev(c15hConB), []proto4.AccountDeposit{{Account: acc, Amount: amount}})
		return err
	}
	write := func(slot int) error {
		_, err := rhp4.RPCWriteSector(context.Background(), w.tr[slot], p, token(), bytes.NewReader(data), n)
		return err
	}
	okDebits := func() (k int) {
		ctl.mu.Lock()
		defer ctl.mu.Unlock()
		for _, d := range ctl.debits {
			if d.ok && d.account == acc {
				k++
			}
		}
		return
	}
	check := func(phase string) {
		var dep, wd types.Currency
		ctl.mu.Lock()
		for _, c := range ctl.credits {
			if c.ok && c.account == acc {
				dep = dep.Add(c.amount)
			}
		}
		for _, d := range ctl.debits {
			if d.ok && d.account == acc {
				wd = wd.Add(d.amount)
			}
		}
		ctl.mu.Unlock()
		bal := r.balance(acc)
		want, under := dep.SubWithUnderflow(wd)
		if under {
			r.monitor("c04-withdrawals-exceed-deposits", fmt.Sprintf("%s: accepted debits %s exceed accepted deposits %s (balance %s)", phase, wd, dep, bal))
		} else if !want.Equals(bal) {
			r.monitor("c04-balance-differs-from-deposits-minus-withdrawals", fmt.Sprintf("%s: balance %s, accepted deposits %s, accepted debits %s", phase, bal, dep, wd))
		}
	}
	// 1. the balance covers one write but not two; both debits are held in front of DebitAccount and let go together
	bal0 := cost.Add(cost.Div64(uint64(2 + r.rng.Intn(3))))
	if err := fund(0, bal0); err != nil {
		r.em.Count("c04:skipped:cannot-fund")
		return
	}
	errs := make([]error, 2)
	var wg sync.WaitGroup
	for k := 0; k < 2; k++ {
		ctl.mu.Lock()
		ctl.park[w.gates[k].slot] = true
		ctl.mu.Unlock()
		wg.Add(1)
		go func(k int) { defer wg.Done(); errs[k] = write(k) }(k)
	}
	if !r.waitFor("both debits in front of DebitAccount", func() bool { return ctl.isParked(0) && ctl.isParked(1) }) {
		ctl.letGo(0, 1)
		wg.Wait()
		return
	}
	ctl.letGo(0, 1)
	wg.Wait()
	okN := okDebits()
	r.em.Count(fmt.Sprintf("c04:two-debits-one-affordable:accepted=%d", okN))
	if okN == 2 {
		r.monitor("c04-double-spend", fmt.Sprintf("balance %s, two concurrent write-sector RPCs of %s each were both accepted", bal0, cost))
	}
	check("two debits, one affordable")
	// 2. a deposit racing a debit the balance may or may not cover
	ctl.mu.Lock()
	ctl.park[w.gates[0].slot], ctl.park[w.gates[1].slot] = true, true
	ctl.mu.Unlock()
	var e0, e1 error
	wg.Add(2)
	go func() { defer wg.Done(); e0 = fund(0, cost) }()
	go func() { defer wg.Done(); e1 = write(1) }()
	if r.waitFor("deposit and debit held", func() bool { return ctl.isParked(0) && ctl.isParked(1) }) {
		if r.rng.Intn(2) == 0 {
			ctl.letGo(0, 1)
		} else {
			ctl.letGo(1, 0)
		}
	} else {
		ctl.letGo(0, 1)
	}
	wg.Wait()
	r.em.Count(fmt.Sprintf("c04:deposit-vs-debit:deposit-ok=%v,debit-ok=%v", e0 == nil, e1 == nil))
	check("deposit racing debit")
	// 3. two debits the balance covers both: both must be accepted and both booked
	need := cost.Mul64(2)
	if b := r.balance(acc); b.Cmp(need) < 0 {
		if err := fund(0, need.Sub(b)); err != nil {
			r.em.Count("c04:skipped:cannot-fund")
			return
		}
	}
	for k := 0; k < 2; k++ {
		ctl.mu.Lock()
		ctl.park[w.gates[k].slot] = true
		ctl.mu.Unlock()
		wg.Add(1)
		go func(k int) { defer wg.Done(); errs[k] = write(k) }(k)
	}
	r.waitFor("both debits in front of DebitAccount", func() bool { return ctl.isParked(0) && ctl.isParked(1) })
	ctl.letGo(0, 1)
	wg.Wait()
	r.em.Count(fmt.Sprintf("c04:two-debits-both-affordable:ok=%v,%v", errs[0] == nil, errs[1] == nil))
	if errs[0] != nil || errs[1] != nil {
		// not a C04 matter by itself (the property forbids overspending, not refusals), but unexpected
		r.em.Count("c04:affordable-debit-refused")
	}
	check("two debits, both affordable")
	r.drainGate()
}

// ---- the test ---------------------------------------------------------------------------------

func TestVerifC15RHP4(t *testing.T) {
	em := newVerifEmitter(t, c15hHeader, "ucase", "ucheck")
	defer em.Close()
	n, genesis := testutil.V2Network()
	hostKey := types.NewPrivateKeyFromSeed(bytes.Repeat([]byte{0x15}, 32))
	hn := testutil.NewHostNode(t, hostKey, n, genesis, zap.NewNop())
	results := make(chan error, 1)
	if _, err := hn.Volumes.AddVolume(context.Background(), filepath.Join(t.TempDir(), "test.dat"), 64, results); err != nil {
		t.Fatal(err)
	} else if err := <-results; err != nil {
		t.Fatal(err)
	}
	testutil.MineAndSync(t, hn, hn.Wallet.Address(), int(n.MaturityDelay+40))
	w := &c15hWorld{t: t, hn: hn, host: hostKey, renter: types.NewPrivateKeyFromSeed(bytes.Repeat([]byte{0x51}, 32)), ctl: newC15hCtl()}
	for s := 0; s < c15hSlots+2; s++ {
		g := &c15hGate{Manager: hn.Contracts, slot: s, ctl: w.ctl}
		w.gates = append(w.gates, g)
		if s < c15hSlots {
			w.tr = append(w.tr, c15hServe(t, hostKey, hn, g))
		}
	}
	w.setup()

	cases := verifN(60)
	failures := 0
	for id := 0; id < len(c15hDirectedCases)+cases; id++ {
		if em.Skip(id) {
			continue
		}
		rng := verifCaseRand(id)
		r := &c15hRun{w: w, em: em, rng: rng, timeout: 12 * time.Second, seq: rng.Intn(1000)}
		for k := 0; k < 3; k++ {
			b := make([]byte, 32)
			rng.Read(b)
			key := types.NewPrivateKeyFromSeed(b)
			r.akeys = append(r.akeys, key)
			if k < 2 {
				r.accounts = append(r.accounts, proto4.Account(key.PublicKey()))
			}
		}
		handlers, free := 0, 1
		var dir *c15hDirected
		if id < len(c15hDirectedCases) {
			dir = &c15hDirectedCases[id]
			handlers, free = dir.handlers, dir.free
		} else {
			handlers = 2 + rng.Intn(3)
		}
		w.ids, w.bad, w.rv = w.ids[:c15hConBase], w.bad[:c15hConBase], w.rv[:c15hConBase]
		if dir != nil && dir.fresh {
			w.ids, w.bad, w.rv = append(w.ids, w.form()), append(w.bad, false), append(w.rv, true)
			cs := hn.Chain.TipState()
			if _, err := rhp4.RPCAppendSectors(context.Background(), w.tr[0], cs, w.prices(), w.renter, w.rev(c15hConBase), []types.Hash256{w.sector}); err != nil {
				t.Fatalf("harness: append: %v", err)
			}
		}
		var init []string
		for k := 0; k < handlers; k++ {
			r.us = append(r.us, &c15hUser{handler: true, gate: w.gates[k]})
			init = append(init, "UR4 R4Idle")
		}
		for k := 0; k < free; k++ {
			r.us = append(r.us, &c15hUser{gate: w.gates[c15hSlots+k]})
			init = append(init, "UFree")
		}
		em.BeginCase(id, "rhp4 lock users")
		em.Step("UInit "+coqList(init), r.observe())
		if dir != nil {
			em.Count("case:directed")
			dir.run(r)
		} else {
			em.Count(fmt.Sprintf("case:generated,handlers=%d", handlers))
			r.generated(6 + rng.Intn(14))
		}
		if !r.failed {
			r.finish()
		}
		if !r.failed {
			r.drainGate()
		}
		if !r.failed && (dir == nil || id%3 == 0) {
			r.accountRaces()
		}
		em.EndCase(r.parked > 0)
		if r.heldSeen > 0 {
			em.Count("case:some-handler-was-stopped-holding")
		}
		if r.fatal {
			t.Logf("case %d: stopping", id)
			r.abort()
			break
		}
		if r.failed {
			r.abort()
			failures++
			if failures >= 3 {
				break
			}
		}
	}
}
