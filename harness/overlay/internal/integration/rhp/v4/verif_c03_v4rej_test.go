//go:build verif

package rhp_test

// C03 (WP-Y round 2) — a v2 contract whose formation is never confirmed.
//
// The chain subscriber rejects it past the reject buffer (RejectContracts) and the next
// Manager.ProcessActions deletes its root rows (ExpireV2ContractSectors: "rejected or past the expiration
// height"); the manager's root cache keeps the list.  The property's question: does the host still accept
// modifications of it?  If LockV2Contract reports it revisable and ReviseV2Contract accepts, the host signs
// a revision that commits to cache ++ [new] while it persists only the rows the diff against the cached
// list writes: persisted != served, file size != persisted length x sector size, and a restarted host
// serves yet another list.
//
// Real host node (V2 network), real coreutils RHP4 server and client (machinery: verif_c03_v4_test.go);
// the blocks of this test are mined WITHOUT transactions, so the formation (which the server put into the
// pool) never confirms.  Per case: form, fund an account, upload and append 1-3 roots (pending contracts
// are usable), mine past the reject buffer until the store says rejected and the rows are gone, then
// RPCAppendSectors / RPCFreeSectors / RPCSectorRoots / RPCFundAccounts / renew / refresh on it.
//
//   rejected-contract-revised     the host accepted (counter-signed and persisted) a modification of a
//                                 rejected contract; detail gives persisted / served / implied lists,
//                                 file size and what a manager loaded from the database serves
//
// Recorded for coq/Roots/Hand.v: HStatus id CRejected, HExpire, then the RPCs as SAcq2 / Revise2 / SRel.

import (
	"context"
	"fmt"
	"testing"
	"time"

	"go.sia.tech/core/types"
	proto4 "go.sia.tech/core/rhp/v4"
	"go.sia.tech/coreutils"
	rhp4 "go.sia.tech/coreutils/rhp/v4"
	"go.sia.tech/hostd/v2/host/contracts"
	"go.sia.tech/hostd/v2/internal/testutil"
	"go.uber.org/zap"
)

// y4MineEmpty mines n blocks that contain no transaction and waits for the indexer after each
func y4MineEmpty(t *testing.T, hn *testutil.HostNode, n int) {
	for ; n > 0; n-- {
		cs := hn.Chain.TipState()
		b := types.Block{ParentID: cs.Index.ID, Timestamp: types.CurrentTimestamp(), MinerPayouts: []types.SiacoinOutput{{Value: cs.BlockReward(), Address: types.VoidAddress}}}
		if cs.Index.Height+1 >= cs.Network.HardforkV2.AllowHeight {
			b.V2 = &types.V2BlockData{Height: cs.Index.Height + 1}
			b.V2.Commitment = cs.Commitment(cs.TransactionsCommitment(nil, nil), types.VoidAddress)
		}
		if !coreutils.FindBlockNonce(cs, &b, 5*time.Second) {
			t.Fatal("failed to mine an empty block")
		} else if err := hn.Chain.AddBlocks([]types.Block{b}); err != nil {
			t.Fatal(err)
		}
		testutil.WaitForSync(t, hn.Chain, hn.Indexer)
	}
}

// seq runs one RPC through server A outside any pair and records what the gates saw
func (x *y4Case) one(id types.FileContractID, what string, fn func(ctx context.Context) error) error {
	g := x.h.g
	g.begin(id)
	ctx, cancel := context.WithTimeout(context.Background(), 60*time.Second)
	err := fn(ctx)
	cancel()
	x.waitFree(id)
	evs := g.snapshot()
	g.end()
	x.desc = fmt.Sprintf("%s: %v; %s", what, err, y4Trace(evs))
	if err != nil || !x.rejected[id] {
		// (an accepted modification of a rejected contract is the finding: reported by the monitor, and the
		// case ends there — the model, which contains the repair, has nothing to compare it with)
		x.record(id, evs, false)
	}
	return err
}

func (x *y4Case) rejectedCase(caseID int) {
	hn := x.h.hn
	x.setupWith(false)
	id := x.ids[0]
	n := x.cN(id)
	// pending: usable
	k := 1 + x.rng.Intn(3)
	if caseID == 0 {
		k = 2
	}
	if !x.pair(y4Pair{a: y4Edit{kind: "append", roots: k}, point: y4PersistIn, b: "roots"}) {
		x.t.Fatal("the pending contract could not be edited")
	}
	spare := x.upload(2)
	// past the reject buffer
	rejected := false
	for i := 0; i < 30 && !rejected; i++ {
		y4MineEmpty(x.t, hn, 1)
		c, err := hn.Contracts.V2Contract(id)
		if err != nil {
			x.t.Fatal(err)
		}
		rejected = c.Status == contracts.V2ContractStatusRejected
	}
	if !rejected {
		x.t.Fatal("the unconfirmed contract was not rejected")
	}
	x.em.Step(fmt.Sprintf("HStatus %d CRejected", n), "HORes (Ok tt)")
	y4MineEmpty(x.t, hn, 1) // ProcessActions of the next tip has expired the rows at the latest
	x.em.Step("HExpire", "HORes (Ok tt)")
	x.rejected[id] = true
	before := x.look(id, x.ref[id], "after the rejection")
	if len(before.db) != 0 {
		x.em.Count("rejected:rows-still-there")
	}
	cs := hn.Chain.TipState()
	p := x.prices()
	fs := &fundAndSign{hn.Wallet, x.renter}
	base := x.rev(id)
	implied := append([]types.Hash256(nil), x.ref[id]...)
	ops := []string{"append", "roots", "fund", "refresh", "free"}
	if caseID > 0 {
		x.rng.Shuffle(len(ops), func(i, j int) { ops[i], ops[j] = ops[j], ops[i] })
		ops = ops[:1+x.rng.Intn(3)]
		// a free is never the first RPC: where the host accepts modifications of a rejected contract it would
		// not return an error but panic the host, and the monitor could not report
		if ops[0] == "free" {
			ops[0], ops[len(ops)-1] = ops[len(ops)-1], ops[0]
			if ops[0] == "free" {
				ops[0] = "append"
			}
		}
	}
	for _, op := range ops {
		cur := x.rev(id)
		var err error
		switch op {
		case "append":
			err = x.one(id, "RPCAppendSectors on the rejected contract", func(ctx context.Context) error {
				_, err := rhp4.RPCAppendSectors(ctx, x.h.tr["A"], cs, p, x.renter, cur, spare[:1])
				return err
			})
			if err == nil {
				implied = append(implied, spare[0])
			}
		case "free":
			if len(implied) == 0 {
				continue
			}
			err = x.one(id, "RPCFreeSectors on the rejected contract", func(ctx context.Context) error {
				_, err := rhp4.RPCFreeSectors(ctx, x.h.tr["A"], cs, p, x.renter, cur, []uint64{0})
				return err
			})
			if err == nil {
				implied, _ = y4Free(implied, []uint64{0})
			}
		case "roots":
			if len(implied) == 0 {
				continue
			}
			err = x.one(id, "RPCSectorRoots on the rejected contract", func(ctx context.Context) error {
				_, err := rhp4.RPCSectorRoots(ctx, x.h.tr["A"], cs, p, fs, cur, 0, uint64(len(implied)))
				return err
			})
		case "fund":
			err = x.one(id, "RPCFundAccounts from the rejected contract", func(ctx context.Context) error {
				_, err := rhp4.RPCFundAccounts(ctx, x.h.tr["A"], cs, fs, cur, []proto4.AccountDeposit{{Account: proto4.Account(x.acct.PublicKey()), Amount: types.Siacoins(1)}})
				return err
			})
		case "refresh":
			err = x.one(id, "RPCRefreshContract of the rejected contract", func(ctx context.Context) error {
				_, err := rhp4.RPCRefreshContract(ctx, x.h.tr["A"], hn.Chain, fs, cs, p, cur.Revision, proto4.RPCRefreshContractParams{ContractID: id, Allowance: types.Siacoins(20), Collateral: types.Siacoins(5)})
				return err
			})
		}
		x.em.Count(fmt.Sprintf("rejected:%s:accepted=%v", op, err == nil))
		if err == nil {
			v := x.view(id)
			fresh, ferr := contracts.NewManager(hn.Store, hn.Volumes, hn.Chain, hn.Syncer, hn.Wallet, contracts.WithLog(zap.NewNop()))
			var reloaded []types.Hash256
			if ferr == nil {
				reloaded = fresh.SectorRoots(id)
				fresh.Close()
			}
			counter := uint64(0)
			if m, merr := hn.Store.Metrics(time.Now()); merr == nil {
				counter = m.Storage.ContractSectors
			}
			x.monitor("rejected-contract-revised", fmt.Sprintf("contract %d (status %v, formation never confirmed, root rows expired) accepted %s: revision %d -> %d with file size %d; persisted list %s, served list %s, list implied by the accepted modifications %s, a manager loaded from the database serves %s; contract-sector counter %d for %d persisted rows",
				n, v.c.Status, op, base.Revision.RevisionNumber, v.c.RevisionNumber, v.c.Filesize, x.roots(v.db), x.roots(v.cache), x.roots(implied), x.roots(reloaded), counter, len(v.db)))
			// the case ends here: on a host that accepts the modification the contract-sector counter drifts
			// and a later RPCFreeSectors / expiry panics the host ("negative stat value")
			return
		}
	}
	after := x.view(id)
	op, obs := x.lookTerm(id, after)
	x.em.Step(op, obs)
	if after.c.RevisionNumber != base.Revision.RevisionNumber {
		x.em.Count("rejected:revision-moved")
	}
}

func TestVerifC03V4Rejected(t *testing.T) {
	em := newVerifEmitter(t, y4Header, "hcase", "hcheck")
	defer em.Close()
	n := verifN(2)
	for id := 0; id < n+1; id++ {
		if em.Skip(id) {
			continue
		}
		// a host of its own per case: where the host accepts the modification, the contract-sector counter
		// drifts below the number of rows and the NEXT expiry (of any rejected contract of the host) panics
		// with "negative stat value" inside the chain subscriber
		h := newY4Host(t)
		x := newY4Case(t, h, em, id)
		em.BeginCase(id, "a v2 contract whose formation never confirms: rejected past the reject buffer, its root rows expired, then RHP4 RPCs on it")
		x.rejectedCase(id)
		em.EndCase(true)
	}
}
