//go:build verif

package rhp_test

// C13 (WP-Y) — RHP4 renewals and refreshes whose transaction set the host's pool refuses, through the real
// coreutils rhp/v4 server on a real host node (machinery: verif_c03_v4_test.go).
//
// The renter is coreutils' own client (RPCRenewContract / RPCRefreshContract); the variants are produced
// by the signer it funds and signs its inputs with:
//   wrong-signature    one signature of a renter input is corrupted after signing
//   conflict-in-pool   the renter's inputs are spent by a transaction already in the host's pool
//   spent-input        ... already in a block
// After every refused renewal C13's last sentence is evaluated: the predecessor is exactly as it was
// (persisted list, served list, revision, links, status), no successor row exists, LockV2Contract reports it
// revisable and not renewed, it accepts a list edit (with a second caller queued), and at the end a valid
// renewal / refresh still goes through and hands the list over.
//
//   malformed-or-failed-renewal-accepted   failed-renewal-changes-state   live-contract-refuses-lock
//
// Recorded for coq/Roots/Hand.v: SAcq2, [SRenewH t false (Renew2 ...)] -> Err EInvalid, SRel.

import (
	"context"
	"fmt"
	"strings"
	"testing"
	"time"

	proto4 "go.sia.tech/core/rhp/v4"
	"go.sia.tech/core/types"
	rhp4 "go.sia.tech/coreutils/rhp/v4"
	"go.sia.tech/hostd/v2/host/contracts"
	"go.sia.tech/hostd/v2/internal/testutil"
)

type y4BadSigner struct {
	*fundAndSign
	x       *y4Case
	variant string
	setup   error
}

func (s *y4BadSigner) FundV2Transaction(txn *types.V2Transaction, amount types.Currency) (types.ChainIndex, []int, error) {
	before := len(txn.SiacoinInputs)
	basis, toSign, err := s.fundAndSign.w.FundV2Transaction(txn, amount, false)
	if err != nil || s.variant == "wrong-signature" {
		return basis, toSign, err
	}
	hn := s.x.h.hn
	conflict := types.V2Transaction{SiacoinInputs: append([]types.V2SiacoinInput(nil), txn.SiacoinInputs[before:]...)}
	var total types.Currency
	for _, in := range conflict.SiacoinInputs {
		total = total.Add(in.Parent.SiacoinOutput.Value)
	}
	conflict.SiacoinOutputs = []types.SiacoinOutput{{Address: hn.Wallet.Address(), Value: total}}
	idx := make([]int, len(conflict.SiacoinInputs))
	for i := range idx {
		idx[i] = i
	}
	s.fundAndSign.w.SignV2Inputs(&conflict, idx)
	if _, err := hn.Chain.AddV2PoolTransactions(basis, []types.V2Transaction{conflict}); err != nil {
		s.setup = fmt.Errorf("the conflicting spend was refused: %w", err)
		return basis, toSign, nil
	}
	if s.variant == "spent-input" {
		testutil.MineAndSync(s.x.t, hn, types.VoidAddress, 1)
	}
	return basis, toSign, nil
}

func (s *y4BadSigner) SignV2Inputs(txn *types.V2Transaction, toSign []int) {
	s.fundAndSign.SignV2Inputs(txn, toSign)
	if s.variant == "wrong-signature" && len(toSign) > 0 {
		in := &txn.SiacoinInputs[toSign[s.x.rng.Intn(len(toSign))]]
		if len(in.SatisfiedPolicy.Signatures) > 0 {
			in.SatisfiedPolicy.Signatures[0][s.x.rng.Intn(64)] ^= 0x08
		}
	}
}

func (x *y4Case) contractCount() int {
	_, n, err := x.h.hn.Contracts.V2Contracts(contracts.V2ContractFilter{})
	if err != nil {
		x.t.Fatal(err)
	}
	return n
}

func (x *y4Case) rejectedRenew(variant string, refresh bool) bool {
	g := x.h.g
	hn := x.h.hn
	id := x.ids[len(x.ids)-1]
	base := x.rev(id)
	kind := "renewal"
	if refresh {
		kind = "refresh"
	}
	x.desc = fmt.Sprintf("RHP4 %s with %s", kind, variant)
	before := x.view(id)
	nBefore := x.contractCount()
	g.begin(id)
	s := &y4BadSigner{fundAndSign: &fundAndSign{hn.Wallet, x.renter}, x: x, variant: variant}
	ctx, cancel := context.WithTimeout(context.Background(), 60*time.Second)
	var err error
	p := x.prices()
	if refresh {
		_, err = rhp4.RPCRefreshContract(ctx, x.h.tr["A"], hn.Chain, s, hn.Chain.TipState(), p, base.Revision, proto4.RPCRefreshContractParams{ContractID: id, Allowance: types.Siacoins(30).Add(types.NewCurrency64(uint64(x.rng.Intn(1000)))), Collateral: types.Siacoins(5)})
	} else {
		_, err = rhp4.RPCRenewContract(ctx, x.h.tr["A"], hn.Chain, s, hn.Chain.TipState(), p, base.Revision, proto4.RPCRenewContractParams{ContractID: id, Allowance: types.Siacoins(30).Add(types.NewCurrency64(uint64(x.rng.Intn(1000)))), Collateral: types.Siacoins(5), ProofHeight: base.Revision.ProofHeight + 10})
	}
	cancel()
	x.waitFree(id)
	evs := g.snapshot()
	g.end()
	x.desc = fmt.Sprintf("RHP4 %s with %s: %v; %s", kind, variant, err, y4Trace(evs))
	if s.setup != nil {
		x.t.Fatalf("setup of %s: %v", variant, s.setup)
	}
	n := x.cN(id)
	x.em.Count(fmt.Sprintf("%s4:%s:refused=%v", kind, variant, err != nil))
	if err == nil {
		x.monitor("malformed-or-failed-renewal-accepted", fmt.Sprintf("the RHP4 %s of contract %d with renter inputs the pool cannot accept (%s) was accepted", kind, n, variant))
		return false
	}
	reachedPool := false
	atPool := strings.Contains(err.Error(), "failed to broadcast") // server.go: the answer of AddV2PoolTransactions
	for _, e := range evs {
		if e.tag != "A" {
			continue
		}
		switch {
		case e.point == y4LockAcq && e.state != nil:
			x.ev(fmt.Sprintf("SAcq2 1 %d", n), fmt.Sprintf("SO (OLock2 (Ok (%d, %s, %s, %s)))", e.state.Revision.RevisionNumber, coqBool(e.state.Renewed), coqBool(e.state.Revisable), x.roots(e.state.Roots)))
			// the handler got as far as the lock; the renter's signatures are checked and the set is handed to
			// the pool under it (server.go: AddV2PoolTransactions before contractor.RenewV2Contract)
			if atPool {
				reachedPool = true
				x.ev(fmt.Sprintf("SRenewH 1 false (Renew2 %d %d %s %d true None)", n, x.cN(id.V2RenewalID()), x.rv2(base.Revision), x.hN(base.Revision.FileMerkleRoot)), "SO (ORes (Err EInvalid))")
			}
		case e.point == y4PersistIn && e.what == "renew":
			x.monitor("failed-renewal-changes-state", fmt.Sprintf("Manager.RenewV2Contract was called for the %s of contract %d although the pool cannot accept its set (%s)", kind, n, variant))
		case e.point == y4UnlockReq:
			x.ev(fmt.Sprintf("SRel 1 %d", n), "SO (ORes (Ok tt))")
		}
	}
	x.em.Count(fmt.Sprintf("%s4:%s:reached-pool=%v", kind, variant, reachedPool))
	after := x.look(id, x.ref[id], "after the refused "+kind)
	if !y4Eq(after.db, before.db) || !y4Eq(after.cache, before.cache) || after.c.RevisionNumber != before.c.RevisionNumber || after.c.Filesize != before.c.Filesize ||
		after.c.FileMerkleRoot != before.c.FileMerkleRoot || after.c.RenewedTo != before.c.RenewedTo || after.c.RenewedFrom != before.c.RenewedFrom || after.c.Status != before.c.Status {
		x.monitor("failed-renewal-changes-state", fmt.Sprintf("contract %d changed: before {store %s, manager %s, revision %d, size %d, renewed to %s, status %v} after {store %s, manager %s, revision %d, size %d, renewed to %s, status %v}",
			n, x.roots(before.db), x.roots(before.cache), before.c.RevisionNumber, before.c.Filesize, x.opt(before.c.RenewedTo), before.c.Status,
			x.roots(after.db), x.roots(after.cache), after.c.RevisionNumber, after.c.Filesize, x.opt(after.c.RenewedTo), after.c.Status))
	}
	if m := x.contractCount(); m != nBefore {
		x.monitor("failed-renewal-changes-state", fmt.Sprintf("the host stores %d v2 contracts instead of %d after the refused %s of contract %d", m, nBefore, kind, n))
	}
	st, unlock, lerr := hn.Contracts.LockV2Contract(id)
	if lerr != nil || st.Renewed || !st.Revisable {
		x.monitor("live-contract-refuses-lock", fmt.Sprintf("contract %d after the refused %s: LockV2Contract %v, renewed %v, revisable %v", n, kind, lerr, st.Renewed, st.Revisable))
	}
	if lerr == nil {
		unlock()
	}
	return true
}

func TestVerifC13V4(t *testing.T) {
	em := newVerifEmitter(t, y4Header, "hcase", "hcheck")
	defer em.Close()
	h := newY4Host(t)
	n := verifN(3)
	variants := []string{"wrong-signature", "conflict-in-pool", "spent-input"}
	for id := 0; id < n+1; id++ {
		if em.Skip(id) {
			continue
		}
		x := newY4Case(t, h, em, id)
		em.BeginCase(id, "RHP4 renewals / refreshes with renter inputs the pool refuses, each followed by a list edit of the untouched predecessor; then a valid one")
		x.setup()
		x.pair(y4Pair{a: y4Edit{kind: "append", roots: 1 + x.rng.Intn(3)}, point: y4PersistIn, b: "roots"})
		vs := variants
		if id > 0 {
			vs = nil
			for k := 1 + x.rng.Intn(3); k > 0; k-- {
				vs = append(vs, variants[x.rng.Intn(3)])
			}
		}
		for k, v := range vs {
			refresh := (id+k)%2 == 1
			if !x.rejectedRenew(v, refresh) {
				break
			}
			// ... and accepts a write afterwards
			if !x.pair(y4Pair{a: y4Edit{kind: "append", roots: 1}, point: []string{y4LockAcq, y4PersistIn, y4PersistOut}[k%3], b: "roots"}) {
				break
			}
		}
		last := "renew"
		if id%2 == 1 {
			last = "refresh"
		}
		x.pair(y4Pair{a: y4Edit{kind: "append", roots: 1}, point: y4PersistIn, b: last})
		x.restart()
		em.EndCase(x.edits > 0)
	}
}
