#!/usr/bin/env python3
"""tools/seed.py — seeded breaking changes (/verif/seeded/<name>/).

  seed.py verify <dir>      confirm a delivered change in a scratch worktree of /repo:
                            applies, builds, existing tests pass, demo fails with / passes without
  seed.py run <name> [--tier quick] [--repo]
                            run the property's check against the change (scratch worktree by
                            default; --repo applies it to /repo itself and undoes it afterwards)
  seed.py table             print which checks caught which changes (from seeded/*/result.json)
"""
import argparse, json, os, shutil, subprocess, sys, time, glob

VERIF = os.path.dirname(os.path.dirname(os.path.abspath(__file__)))
ENV = dict(os.environ, GOPROXY="off", GOSUMDB="off", GOTOOLCHAIN="local", GOFLAGS="")


def sh(cmd, cwd=None, env=None, timeout=3600):
    p = subprocess.run(cmd, cwd=cwd, env=env or ENV, stdout=subprocess.PIPE, stderr=subprocess.STDOUT, text=True,
                       errors="replace", timeout=timeout, shell=isinstance(cmd, str))
    return p.returncode, p.stdout


def worktree(tag):
    wt = "/tmp/sv-%s-%d" % (tag, os.getpid())
    sh(["git", "-C", "/repo", "worktree", "remove", "--force", wt])
    rc, out = sh(["git", "-C", "/repo", "worktree", "add", "-q", wt, "HEAD"])
    if rc:
        raise SystemExit(out)
    return wt


def drop(wt):
    sh(["git", "-C", "/repo", "worktree", "remove", "--force", wt])
    shutil.rmtree(wt, ignore_errors=True)
    sh(["git", "-C", "/repo", "worktree", "prune"])


def verify(d, full=True):
    d = os.path.abspath(d)
    meta = json.load(open(os.path.join(d, "meta.json")))
    demo = os.path.join(d, meta["demo_file"])
    wt = worktree(os.path.basename(os.path.dirname(d.rstrip("/"))) + os.path.basename(d.rstrip("/")))
    res = dict(meta=meta)
    try:
        ddir = os.path.join(wt, meta["demo_dir"])
        shutil.copy(demo, ddir)
        run = meta.get("demo_run") or ("go test -vet=off -count=1 -run %s ." % meta.get("demo_test", "Seeded"))
        rc, out = sh(run, cwd=ddir)
        res["demo_clean_rc"] = rc
        res["demo_clean_tail"] = out[-600:]
        rc, out = sh(["git", "apply", os.path.join(d, "patch.diff")], cwd=wt)
        res["apply_rc"] = rc
        if rc:
            res["apply_out"] = out
            return res
        rc, out = sh("go build ./...", cwd=wt)
        res["build_rc"] = rc
        rc, out = sh(run, cwd=ddir)
        res["demo_patched_rc"] = rc
        res["demo_patched_tail"] = out[-600:]
        if full:
            os.remove(os.path.join(ddir, os.path.basename(demo)))
            t0 = time.time()
            rc, out = sh("go test -vet=off -count=1 -timeout 25m ./...", cwd=wt)
            res["suite_rc"] = rc
            res["suite_s"] = round(time.time() - t0)
            res["suite_tail"] = "\n".join(l for l in out.splitlines() if not l.startswith("ok") and "no test files" not in l)[-1500:]
        res["confirmed"] = (res["demo_clean_rc"] == 0 and res["demo_patched_rc"] != 0 and res["build_rc"] == 0 and
                            (not full or res["suite_rc"] == 0))
    finally:
        drop(wt)
    return res


def run(name, tier, in_repo):
    d = os.path.join(VERIF, "seeded", name)
    meta = json.load(open(os.path.join(d, "meta.json")))
    pids = meta.get("checks") or [meta["property"]]
    results = {}
    if in_repo:
        target = "/repo"
        rc, out = sh(["git", "-C", "/repo", "apply", os.path.join(d, "patch.diff")])
    else:
        target = worktree("run" + name)
        rc, out = sh(["git", "apply", os.path.join(d, "patch.diff")], cwd=target)
    if rc:
        print("patch does not apply: " + out)
        if not in_repo:
            drop(target)
        return 2
    try:
        for pid in pids:
            env = dict(os.environ, VERIF_REPO=target, VERIF_RUNTAG="-seed-" + name, VERIF_NO_EVIDENCE="1")
            t0 = time.time()
            rc, out = sh(["python3", os.path.join(VERIF, "tools", "check.py"), pid, "--tier", tier], cwd=VERIF, env=env, timeout=7200)
            viol = [l for l in out.splitlines() if l.startswith("VIOLATION")]
            results[pid] = dict(rc=rc, caught=bool(viol) and rc != 0, violation_lines=viol[:5],
                                with_failing_input=any("no-failing-input-found" not in l for l in viol),
                                summary=[l for l in out.splitlines() if l.startswith("check ")][-1:], wall_s=round(time.time() - t0))
            print(name, pid, "CAUGHT" if results[pid]["caught"] else "MISSED", viol[:2])
    finally:
        if in_repo:
            sh(["git", "-C", "/repo", "checkout", "--", "."])
        else:
            drop(target)
    json.dump(dict(name=name, tier=tier, results=results, at=time.strftime("%F %T")), open(os.path.join(d, "result.json"), "w"), indent=1)
    return 0


def table():
    for p in sorted(glob.glob(os.path.join(VERIF, "seeded", "*", "result.json"))):
        r = json.load(open(p))
        m = json.load(open(os.path.join(os.path.dirname(p), "meta.json")))
        for pid, x in r["results"].items():
            print("| %s | %s | %s | %s | %s |" % (r["name"], pid, "caught" if x["caught"] else "MISSED",
                                                "failing input" if x.get("with_failing_input") else ("no-failing-input-found" if x["caught"] else "-"),
                                                m.get("needs", "")[:110]))


if __name__ == "__main__":
    ap = argparse.ArgumentParser()
    ap.add_argument("cmd")
    ap.add_argument("arg", nargs="?")
    ap.add_argument("--tier", default="quick")
    ap.add_argument("--repo", action="store_true")
    ap.add_argument("--nosuite", action="store_true")
    a = ap.parse_args()
    if a.cmd == "verify":
        r = verify(a.arg, not a.nosuite)
        r.pop("meta", None)
        json.dump(r, open(os.path.join(os.path.abspath(a.arg), "verify.json"), "w"), indent=1)
        print(json.dumps(r, indent=1))
        sys.exit(0 if r.get("confirmed") else 1)
    if a.cmd == "run":
        sys.exit(run(a.arg, a.tier, a.repo))
    if a.cmd == "table":
        table()
