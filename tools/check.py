#!/usr/bin/env python3
"""tools/check.py — orchestrator of every /verif check.

  check.py <ID> [--tier quick|thorough] [--replay FILE] [--n N]
  check.py --setup            build every Coq group, warm the Go build cache
  check.py --manifest         regenerate MANIFEST.json from props/*.json

A check run (see DESIGN.md §1.2):
  1. regenerate translated model parts from /repo (optional per property: "gen")
  2. build the Coq group; compile props/<ID> and read Print Assumptions
  3. run the Go harness on /repo's working tree (go test -overlay, nothing written to /repo)
  4. evaluate the recorded cases against the model with coqc/vm_compute
  5. decide, print KNOWN-FINDING / VIOLATION lines, write evidence/<ID>.json
"""
import argparse, fcntl, glob, json, os, re, shutil, subprocess, sys, time
from concurrent.futures import ThreadPoolExecutor

VERIF = os.path.dirname(os.path.dirname(os.path.abspath(__file__)))
REPO = os.environ.get("VERIF_REPO", "/repo")
BUILD = os.path.join(VERIF, ".build")
COQ = os.path.join(VERIF, "coq")
FORBIDDEN = re.compile(r"\b(Admitted|admit|Axiom|Axioms|Parameter|Parameters|Conjecture|Conjectures|Hypothesis|Hypotheses|Variable|Variables|Context|Unset\s+Guard|bypass_check|type-in-type|impredicative-set|Admit\s+Obligations|native_compute)\b")
STDLIB_AXIOMS_OK = {
    # axioms the standard library itself declares; each one that shows up is named in the evidence
    "functional_extensionality_dep", "proof_irrelevance", "JMeq_eq", "Eqdep.Eq_rect_eq.eq_rect_eq",
    "eq_rect_eq", "classic", "propositional_extensionality",
}

GOENV = dict(os.environ, GOPROXY="off", GOSUMDB="off", GOTOOLCHAIN="local", GOFLAGS="")


def sh(cmd, cwd=None, env=None, timeout=None):
    p = subprocess.run(cmd, cwd=cwd, env=env, stdout=subprocess.PIPE, stderr=subprocess.STDOUT,
                       timeout=timeout, text=True, errors="replace")
    return p.returncode, p.stdout


def sh_guarded(cmd, cwd=None, env=None, wall=900):
    """run cmd in its own process group; after `wall` seconds send SIGQUIT (stack dump), then kill the group"""
    import signal
    p = subprocess.Popen(cmd, cwd=cwd, env=env, stdout=subprocess.PIPE, stderr=subprocess.STDOUT, text=True,
                         errors="replace", start_new_session=True)
    try:
        out, _ = p.communicate(timeout=wall)
        return p.returncode, out, False
    except subprocess.TimeoutExpired:
        try:
            os.killpg(p.pid, signal.SIGQUIT)
        except OSError:
            pass
        try:
            out, _ = p.communicate(timeout=20)
        except subprocess.TimeoutExpired:
            try:
                os.killpg(p.pid, signal.SIGKILL)
            except OSError:
                pass
            out, _ = p.communicate()
        return 124, out or "", True


class Lock:
    def __init__(self, name):
        os.makedirs(BUILD, exist_ok=True)
        self.path = os.path.join(BUILD, name + ".lock")

    def __enter__(self):
        self.f = open(self.path, "w")
        fcntl.flock(self.f, fcntl.LOCK_EX)

    def __exit__(self, *a):
        fcntl.flock(self.f, fcntl.LOCK_UN)
        self.f.close()


def load_cfg(pid):
    with open(os.path.join(VERIF, "props", pid + ".json")) as f:
        return json.load(f)


def registered_cfgs():
    cfgs = all_cfgs()
    ip = os.path.join(VERIF, "props", "INTEGRATED")
    if os.path.exists(ip):
        integrated = set(open(ip).read().split())
        cfgs = [c for c in cfgs if c["id"] in integrated]
    return cfgs


def all_cfgs():
    out = []
    for p in sorted(glob.glob(os.path.join(VERIF, "props", "C*.json"))):
        with open(p) as f:
            out.append(json.load(f))
    return out


# ---------------------------------------------------------------- Coq

def coq_flags(group):
    """-Q flags of a group, read from its _CoqProject."""
    flags = []
    with open(os.path.join(COQ, group, "_CoqProject")) as f:
        for line in f:
            t = line.split()
            if len(t) == 3 and t[0] in ("-Q", "-R"):
                flags += [t[0], os.path.normpath(os.path.join(COQ, group, t[1])), t[2]]
    return flags


def group_deps(group):
    deps = []
    with open(os.path.join(COQ, group, "_CoqProject")) as f:
        for line in f:
            t = line.split()
            if len(t) == 3 and t[0] in ("-Q", "-R") and t[1] != ".":
                deps.append(os.path.basename(os.path.normpath(os.path.join(COQ, group, t[1]))))
    return deps


def build_group(group, log, exclude=None):
    """Full .vo build of one group (and the groups it depends on) with coq_makefile + make.
    exclude: file names of the group's _CoqProject left out (the 'core' build used when an optional,
    redundant translator tie of the group cannot be re-established; see run_check_locked)."""
    for d in group_deps(group):
        ok = build_group(d, log)
        if not ok:
            return False
    gdir = os.path.join(COQ, group)
    with Lock("coq-" + group):
        proj = "_CoqProject"
        if exclude:
            lines = [l for l in open(os.path.join(gdir, "_CoqProject")).read().splitlines() if l.strip() not in exclude]
            proj = "_CoqProject.core"
            open(os.path.join(gdir, proj), "w").write("\n".join(lines) + "\n")
        rc, out = sh(["coq_makefile", "-f", proj, "-o", "Makefile.coq"], cwd=gdir)
        if rc != 0:
            log.append(out)
            return False
        rc, out = sh(["timeout", "1500", "make", "-f", "Makefile.coq", "-j16"], cwd=gdir)
        out = "\n".join(l for l in out.splitlines() if not l.startswith("Warning:"))
        log.append("== make %s (rc=%d)\n%s" % (group, rc, out[-6000:]))
        return rc == 0


def forbidden_tokens(group):
    hits = []
    for g in [group] + group_deps(group):
        for p in sorted(glob.glob(os.path.join(COQ, g, "*.v"))):
            txt = open(p).read()
            txt = re.sub(r"\(\*.*?\*\)", "", txt, flags=re.S)  # comments do not count
            in_section = 0
            for i, line in enumerate(txt.splitlines(), 1):
                if re.match(r"\s*Section\b", line):
                    in_section += 1
                if re.match(r"\s*End\b", line) and in_section:
                    in_section -= 1
                for m in FORBIDDEN.finditer(line):
                    w = m.group(1)
                    if w.startswith(("Variable", "Hypothes", "Context")) and in_section:
                        continue  # Section variables are discharged, not axioms
                    hits.append("%s:%d: %s" % (os.path.relpath(p, VERIF), i, line.strip()))
    return hits


def check_props(cfg, log):
    """Compile the property file on its own and read its Print Assumptions output.
    Returns dict(theorems=[...], closed=n, axioms=[...], ok=bool, output=str)."""
    group, pf = cfg["group"], cfg["props_file"]
    return check_props_file(group, pf, log)


def find_case_text(hdir, case_id):
    """the recorded Coq term of one case, for the replay file"""
    pat = "(%s%%N," % case_id
    for f in sorted(glob.glob(os.path.join(hdir, "cases_*.v"))):
        txt = open(f).read()
        i = txt.find("\n" + pat)
        if i < 0:
            i = txt.find(pat)
        if i >= 0:
            j = txt.find(";\n(", i + 1)
            k = txt.find("\n].\nDefinition bad", i)
            end = min(x for x in (j, k) if x >= 0) if (j >= 0 or k >= 0) else len(txt)
            return txt[i:end].strip()[:20000]
    return None


def check_props_file(group, pf, log):
    gdir = os.path.join(COQ, group)
    src = open(os.path.join(gdir, pf)).read()
    src_nc = re.sub(r"\(\*.*?\*\)", "", src, flags=re.S)
    theorems = re.findall(r"^\s*(?:Theorem|Example)\s+(\w+)", src_nc, flags=re.M)
    prints = re.findall(r"^\s*Print Assumptions\s+(\w+)", src_nc, flags=re.M)
    # statements-only discipline: every proof in a property file is one `exact`
    proofs = re.findall(r"Proof\.(.*?)Qed\.", src_nc, flags=re.S)
    undisciplined = [p.strip() for p in proofs
                     if not re.match(r"(exact\b|vm_compute\b|reflexivity\b)", p.strip())]
    with Lock("coq-" + group):
        rc, out = sh(["timeout", "900", "coqc"] + coq_flags(group) + [pf], cwd=gdir)
    log.append("== coqc %s (rc=%d)\n%s" % (pf, rc, out[-4000:]))
    closed = out.count("Closed under the global context")
    axioms = sorted(set(re.findall(r"^([A-Za-z_][\w.']*)\s*:", out, flags=re.M))) if "Axioms:" in out else []
    bad_axioms = [a for a in axioms if a.split(".")[-1] not in {x.split(".")[-1] for x in STDLIB_AXIOMS_OK}]
    thms = [t for t in theorems if not t.endswith("nonvacuous")]
    missing_print = [t for t in thms if t not in prints]
    ok = rc == 0 and not bad_axioms and not missing_print and not undisciplined
    return dict(theorems=theorems, obligations=len(theorems), closed=closed, axioms=axioms,
                bad_axioms=bad_axioms, missing_print=missing_print, undisciplined=undisciplined,
                ok=ok, rc=rc, output=out)


def run_case_files(group, outdir, log):
    """coqc every cases_*.v (16 in parallel); returns (n_files, mismatch records, errors)."""
    files = sorted(glob.glob(os.path.join(outdir, "cases_*.v")))
    flags = coq_flags(group)

    def one(f):
        rc, out = sh(["timeout", "1200", "coqc"] + flags + ["-Q", outdir, "VerifCases", f], cwd=outdir)
        return f, rc, out

    mism, errs = [], []
    with ThreadPoolExecutor(max_workers=int(os.environ.get("VERIF_JOBS", "16"))) as ex:
        for f, rc, out in ex.map(one, files):
            flat = " ".join(out.split())
            if rc != 0:
                errs.append("%s: coqc rc=%d: %s" % (os.path.basename(f), rc, out[-1500:]))
            elif re.search(r"bad = \[\s*\]", flat):
                pass
            else:
                mism.append(dict(file=f, model_says=flat[:3000]))
    for f in files:  # compiled case files are scratch
        for ext in (".vo", ".vok", ".vos", ".glob"):
            try:
                os.remove(f[:-2] + ext)
            except OSError:
                pass
    return len(files), mism, errs


# ---------------------------------------------------------------- Go harness

def make_overlay(cfg_h, outdir):
    """overlay.json mapping harness files into /repo package dirs (plus the emitter)."""
    repl = {}
    tmpl = open(os.path.join(VERIF, "harness", "common", "emit.go.tmpl")).read()
    pkgs_done = set()
    for rel in cfg_h["files"]:
        src = os.path.join(VERIF, "harness", "overlay", rel)
        dst = os.path.join(REPO, rel)
        repl[dst] = src
        d = os.path.dirname(rel)
        m = re.search(r"^package\s+(\w+)", open(src).read(), flags=re.M)
        key = (d, m.group(1))
        if key not in pkgs_done and not cfg_h.get("no_emitter"):
            pkgs_done.add(key)
            ed = os.path.join(outdir, "emit", d.replace("/", "_") + "_" + m.group(1))
            os.makedirs(ed, exist_ok=True)
            ef = os.path.join(ed, "verif_emit_%s_test.go" % m.group(1))
            open(ef, "w").write(tmpl.replace("{{PKG}}", m.group(1)))
            repl[os.path.join(REPO, d, "verif_emit_%s_test.go" % m.group(1))] = ef
    ov = os.path.join(outdir, "overlay.json")
    json.dump({"Replace": repl}, open(ov, "w"), indent=1)
    return ov


def run_harness(cfg_h, tier, seed, outdir, log, n_override=None, only_case=None):
    os.makedirs(outdir, exist_ok=True)
    ov = make_overlay(cfg_h, outdir)
    n = n_override if n_override is not None else cfg_h.get("n", {}).get(tier, 100)
    env = dict(GOENV, VERIF_SEED=str(seed), VERIF_N=str(n), VERIF_TIER=tier, VERIF_OUT=outdir)
    for k, v in cfg_h.get("env", {}).get(tier, {}).items():
        env[k] = str(v)
    if only_case is not None:
        env["VERIF_ONLY_CASE"] = str(only_case)
    tags = cfg_h.get("tags", "verif")
    cmd = ["go", "test", "-tags", tags, "-vet=off", "-overlay", ov, "-count=1",
           "-run", cfg_h["run"], "-timeout", cfg_h.get("timeout", {}).get(tier, "20m") if isinstance(cfg_h.get("timeout"), dict) else cfg_h.get("timeout", "20m")]
    if cfg_h.get("race") and tier == "thorough":
        cmd.append("-race")
    cmd.append(cfg_h["pkg"])
    # wall-clock guard: a quick-tier harness that has not finished after `wall` seconds (default 15 min,
    # ten times its usual time) is sent SIGQUIT (Go prints every goroutine's stack), killed, and run once
    # more from scratch; only a second overrun counts as a hang of the code under test (broken tie).  The
    # stack dump of an overrun is kept under .build/replay/ either way.
    wall = cfg_h.get("wall", {}).get(tier) if isinstance(cfg_h.get("wall"), dict) else None
    if wall is None:
        wall = 900 if tier == "quick" else 6 * 3600
    for attempt in (1, 2):
        t0 = time.time()
        rc, out, overrun = sh_guarded(cmd, cwd=REPO, env=env, wall=wall)
        log.append("== %s (rc=%d, %.1fs%s)\n%s" % (" ".join(cmd), rc, time.time() - t0, ", OVERRUN attempt %d" % attempt if overrun else "", out[-6000:]))
        if not overrun:
            return rc, out
        dump = os.path.join(VERIF, ".build", "replay", "hang-%s-%s-attempt%d.txt" % (os.path.basename(outdir.rstrip("/")), cfg_h["run"].strip("^$"), attempt))
        os.makedirs(os.path.dirname(dump), exist_ok=True)
        open(dump, "w").write(" ".join(cmd) + "\n" + out[-400000:])
        print("NOTE: harness %s %s did not finish within %ds (attempt %d); goroutine dump: %s" % (cfg_h["pkg"], cfg_h["run"], wall, attempt, dump))
        if attempt == 1:
            shutil.rmtree(outdir, ignore_errors=True)
            os.makedirs(outdir, exist_ok=True)
            make_overlay(cfg_h, outdir)
    return 124, "harness did not finish within %d s in two attempts (hang)\n%s" % (wall, out[-3000:])


# ---------------------------------------------------------------- findings

def load_known():
    p = os.path.join(VERIF, "known_findings.json")
    out = []
    if os.path.exists(p):
        out += json.load(open(p)).get("findings", [])
    # per-property files being prepared (merged into known_findings.json by the coordinator)
    for q in sorted(glob.glob(os.path.join(VERIF, "known_findings.d", "*.json"))):
        out += json.load(open(q)).get("findings", [])
    return out


# ---------------------------------------------------------------- one check

def run_check(pid, tier, seed, replay=None, n_override=None):
    cfg = load_cfg(pid)
    if not cfg.get("gen"):
        return run_check_locked(pid, tier, seed, replay, n_override)
    # properties with regenerated model parts write into the shared coq/<Group>/ directory:
    # one run at a time, and a run against a scratch tree restores the files from /repo
    # "gen_lock" names the lock when two properties' translators write the same directories
    with Lock("run-" + cfg.get("gen_lock", cfg["group"])):
        try:
            return run_check_locked(pid, tier, seed, replay, n_override)
        finally:
            if REPO != "/repo":
                for g in cfg.get("gen", []):
                    sh(g["cmd"], cwd=VERIF, env=dict(GOENV, VERIF_REPO="/repo"), timeout=1800)


def run_check_locked(pid, tier, seed, replay=None, n_override=None):
    t0 = time.time()
    cfg = load_cfg(pid)
    group = cfg["group"]
    log = []
    out_root = os.path.join(BUILD, "run", "%s-%s%s" % (pid, tier, os.environ.get("VERIF_RUNTAG", "")))
    shutil.rmtree(out_root, ignore_errors=True)
    os.makedirs(out_root, exist_ok=True)
    replay_dir = os.path.join(VERIF, ".build", "replay")
    os.makedirs(replay_dir, exist_ok=True)

    broken = []          # (what no longer checks, detail)
    # a tie that is REDUNDANT with the correspondence tie (the translated function is also hand-modelled and
    # the hand model is compared with the implementation on every recorded case): when it cannot be
    # re-established after a rewrite of the code while the hand-model theorems and the whole correspondence
    # still check, the property is still shown to hold at the strength every non-translated property has;
    # the run then reports TIE-DEGRADED instead of a violation.  Anything else wrong in the same run and the
    # degraded tie is reported as broken as before.
    degraded = []
    opt_files = set(cfg.get("optional_tie_files", []))
    # 1. translators
    for g in cfg.get("gen", []):
        rc, out = sh(g["cmd"], cwd=VERIF, env=dict(GOENV, VERIF_REPO=REPO), timeout=1800)
        log.append("== gen %s (rc=%d)\n%s" % (g["cmd"], rc, out[-3000:]))
        if rc != 0:
            (degraded if g.get("optional") and opt_files else broken).append(("translator " + g["name"], out[-1500:]))

    # 2. Coq
    built = build_group(group, log)
    if (not built or degraded) and opt_files:
        # the generated twin does not build (or was not regenerated: the file on disk is stale): build the
        # group without it
        if not built:
            degraded.append(("Coq build of the generated twin in group " + group, log[-1][-1500:]))
        built = build_group(group, log, exclude=opt_files)
    toks = forbidden_tokens(group)
    props = dict(theorems=[], obligations=0, closed=0, axioms=[], ok=False, output="")
    if not built:
        broken.append(("Coq build of group " + group, log[-1][-2500:]))
    props = check_props(cfg, log) if built else props
    if built and not props["ok"]:
        why = "coqc rc=%s; bad axioms=%s; missing Print Assumptions=%s; non-exact proofs=%s" % (
            props.get("rc"), props.get("bad_axioms"), props.get("missing_print"), props.get("undisciplined"))
        broken.append(("theorems of coq/%s/%s" % (group, cfg["props_file"]), why + "\n" + props["output"][-2000:]))
    # further statement files of this property kept in other groups (cross-group theorems)
    for xp in cfg.get("extra_props", []):
        xg, xf = xp["group"], xp["file"]
        if degraded and xg == group and xf in opt_files:
            degraded.append(("theorems of coq/%s/%s (twins about the generated definitions)" % (xg, xf), "not re-established in this run"))
            continue
        xbuilt = build_group(xg, log, exclude=opt_files if (degraded and xg == group) else None)
        toks += forbidden_tokens(xg)
        if not xbuilt:
            broken.append(("Coq build of group " + xg, log[-1][-2500:]))
            continue
        xr = check_props_file(xg, xf, log)
        props["theorems"] = props["theorems"] + xr["theorems"]
        props["obligations"] += xr["obligations"]
        props["closed"] += xr["closed"]
        props["axioms"] = sorted(set(props["axioms"]) | set(xr["axioms"]))
        if not xr["ok"]:
            props["ok"] = False
            broken.append(("theorems of coq/%s/%s" % (xg, xf), "coqc rc=%s; bad axioms=%s; missing Print Assumptions=%s; non-exact proofs=%s\n%s" % (
                xr.get("rc"), xr.get("bad_axioms"), xr.get("missing_print"), xr.get("undisciplined"), xr["output"][-2000:])))
    if toks:
        broken.append(("forbidden declarations in the development", "\n".join(sorted(set(toks)))))

    # 3+4. harness and correspondence
    stats_all, monitor_hits, mismatches, n_case_files = [], [], [], 0
    only_case = None
    # development aid: VERIF_ONLY_HARNESS=0,2 runs a subset of the harnesses (no evidence is written)
    only_h = None
    if os.environ.get("VERIF_ONLY_HARNESS"):
        only_h = {int(x) for x in os.environ["VERIF_ONLY_HARNESS"].split(",")}
    if replay:
        rp = json.load(open(replay))
        seed = rp.get("seed", seed)
        only_case = rp.get("case")
    # harnesses run a few at a time (VERIF_HARNESS_JOBS, default 3): each is a separate go test process
    # writing into its own directory; results are merged in the order of the config
    def one_harness(hi, h):
        r = one_harness_once(hi, h, "")
        # a harness that drives the code in REAL time (price-table timers, lock waits) can be disturbed by a
        # loaded machine: when such an entry ("realtime": true) alarms, it is run once more with the same seed
        # and only what BOTH runs report counts (a defect of deterministic code reproduces, a scheduling
        # artefact does not); the first run's findings are kept in the log
        if h.get("realtime") and not replay and (r["broken"] or r["mism"] or [x for x in r["hits"] if x["sig"] not in known_sigs_early]):
            r2 = one_harness_once(hi, h, "-again")
            note = "realtime harness %s alarmed (hits %s, diverging shards %d, broken %d) and was run again: second run hits %s, diverging shards %d, broken %d" % (
                h["run"], sorted({x["sig"] for x in r["hits"]}), len(r["mism"]), len(r["broken"]),
                sorted({x["sig"] for x in r2["hits"]}), len(r2["mism"]), len(r2["broken"]))
            print("NOTE: " + note)
            sig2 = {x["sig"] for x in r2["hits"]}
            r2["hits"] = [x for x in r2["hits"] if x["sig"] in known_sigs_early or x["sig"] in {y["sig"] for y in r["hits"]}]
            if not r["mism"]:
                r2["mism"] = []
            if not r["broken"]:
                r2["broken"] = []
            r2["log"] = r["log"] + [note] + r2["log"]
            return r2
        return r

    known_sigs_early = {k["sig"] for k in load_known() if k["property"] == pid}

    def one_harness_once(hi, h, suffix):
        r = dict(hi=hi, broken=[], stats=None, hits=[], nf=0, mism=[], log=[])
        hdir = os.path.join(out_root, "h%d%s" % (hi, suffix))
        rc, out = run_harness(h, tier, seed, hdir, r["log"], n_override, only_case)
        if rc != 0:
            # a failing harness run is a broken tie unless monitors explain it
            r["broken"].append(("correspondence harness %s %s" % (h["pkg"], h["run"]), out[-2500:]))
        sp = os.path.join(hdir, "stats.json")
        if os.path.exists(sp):
            st = json.load(open(sp))
            st["harness"] = "%s %s" % (h["pkg"], h["run"])
            r["stats"] = st
        elif rc == 0:
            r["broken"].append(("correspondence harness %s wrote no stats" % h["run"], out[-800:]))
        mp = os.path.join(hdir, "monitor.jsonl")
        if os.path.exists(mp):
            for line in open(mp):
                line = line.strip()
                if line:
                    x = json.loads(line)
                    x["harness"] = hi
                    r["hits"].append(x)
        # a harness borrowed from another property records cases for that property's model
        hgroup = h.get("group", group)
        hbuilt = built
        if hgroup != group:
            hbuilt = build_group(hgroup, r["log"])
            if not hbuilt:
                r["broken"].append(("Coq build of group " + hgroup, r["log"][-1][-2500:]))
        if hbuilt:
            nf, mism, errs = run_case_files(hgroup, hdir, r["log"])
            r["nf"] = nf
            for m in mism:
                m["harness"] = hi
            r["mism"] = mism
            for e in errs:
                r["broken"].append(("evaluation of recorded cases in Coq", e))
        return r

    todo = []
    for hi, h in enumerate(cfg.get("harness", [])):
        if replay and rp.get("harness", hi) != hi:
            continue
        if only_h is not None and hi not in only_h:
            continue
        todo.append((hi, h))
    jobs = max(1, int(os.environ.get("VERIF_HARNESS_JOBS", "3")))
    with ThreadPoolExecutor(max_workers=jobs) as ex:
        results = list(ex.map(lambda a: one_harness(*a), todo))
    for r in results:
        log += r["log"]
        broken += r["broken"]
        if r["stats"] is not None:
            stats_all.append(r["stats"])
        monitor_hits += r["hits"]
        n_case_files += r["nf"]
        mismatches += r["mism"]

    # 5. decide
    known = [k for k in load_known() if k["property"] == pid]
    known_sigs = {k["sig"]: k for k in known}
    # a harness borrowed from another property ("known_from": "<ID>") also reports that property's
    # recorded findings; they are findings about the lender, not violations of this property
    lender_known = {}
    for hi, h in enumerate(cfg.get("harness", [])):
        if h.get("known_from"):
            lender_known[hi] = {k["sig"] for k in load_known() if k["property"] == h["known_from"]}
    seen_known, new_viol, ignored_lender = {}, [], set()
    for r in monitor_hits:
        if r["sig"] in known_sigs:
            seen_known.setdefault(r["sig"], r)
        elif r["sig"] in lender_known.get(r["harness"], ()):
            ignored_lender.add(r["sig"])
        else:
            new_viol.append(r)
    if ignored_lender:
        log.append("recorded findings of the lending property seen in a borrowed harness (not this property's): %s" % sorted(ignored_lender))
    lines = []
    for sig, r in seen_known.items():
        lines.append("KNOWN-FINDING: property=%s %s (%s; case %s: %s)" % (
            pid, known_sigs[sig]["what"], sig, r["case"], r["detail"]))
    exit_code = 0
    nviol = 0
    # a degraded redundant tie only stays "degraded" when everything else checks: the hand-model theorems
    # compiled, every recorded case agrees with the model, no monitor fired; otherwise it is a broken obligation
    if degraded and (broken or new_viol or mismatches or not (built and props["ok"]) or not stats_all):
        broken += degraded
        degraded = []
    for d in degraded:
        lines.append("TIE-DEGRADED: property=%s %s could not be re-established against the current source; the hand-model theorems and the correspondence on all recorded cases still check (the redundant translator tie is not a deciding obligation, DESIGN 10.5)" % (pid, d[0]))
    if new_viol:
        by_sig = {}
        for r in new_viol:
            by_sig.setdefault(r["sig"], r)
        for sig, r in by_sig.items():
            rp_path = os.path.join(replay_dir, "%s-%s-case%s.json" % (pid, re.sub(r"\W+", "_", sig)[:60], r["case"]))
            json.dump(dict(property=pid, kind="failing-input", sig=sig, detail=r["detail"], desc=r.get("desc"),
                           seed=seed, case=r["case"], harness=r["harness"], tier=tier,
                           recorded_case=find_case_text(os.path.join(out_root, "h%d" % r["harness"]), r["case"]),
                           how="tools/check.py %s --replay %s  (re-runs exactly this case on /repo)" % (pid, rp_path)),
                      open(rp_path, "w"), indent=1)
            lines.append("VIOLATION property=%s replay=%s" % (pid, rp_path))
            nviol += 1
        exit_code = 1
    if mismatches and not new_viol:
        m = mismatches[0]
        rp_path = os.path.join(replay_dir, "%s-correspondence.json" % pid)
        json.dump(dict(property=pid, kind="broken-correspondence",
                       what="model coq/%s and implementation disagree" % group,
                       first_diverging=m["model_says"], cases_file=m["file"], seed=seed, tier=tier,
                       n_diverging_shards=len(mismatches)), open(rp_path, "w"), indent=1)
        lines.append("VIOLATION property=%s replay=%s no-failing-input-found" % (pid, rp_path))
        exit_code = 1
        nviol += 1
    elif mismatches:
        log.append("correspondence also diverges in %d shard(s): %s" % (len(mismatches), mismatches[0]["model_says"][:800]))
    if broken and not new_viol and not mismatches:
        rp_path = os.path.join(replay_dir, "%s-broken.json" % pid)
        json.dump(dict(property=pid, kind="broken-obligation",
                       no_longer_checks=[b[0] for b in broken], detail=[b[1] for b in broken],
                       seed=seed, tier=tier), open(rp_path, "w"), indent=1)
        lines.append("VIOLATION property=%s replay=%s no-failing-input-found" % (pid, rp_path))
        exit_code = 1
        nviol += 1

    # thorough: independent re-check of the compiled group
    coqchk_note = None
    if tier == "thorough" and built and cfg.get("coqchk", True) and not replay:
        with Lock("coq-" + group):
            mods = []
            lp = [t for t in coq_flags(group)]
            lname = lp[lp.index(os.path.join(COQ, group)) + 1]
            for v in open(os.path.join(COQ, group, "_CoqProject")).read().split():
                if v.endswith(".v"):
                    mods.append(lname + "." + v[:-2].replace("/", "."))
            rc, out = sh(["timeout", "3000", "coqchk", "-silent", "-o"] + coq_flags(group) + mods, cwd=os.path.join(COQ, group))
        coqchk_note = "coqchk rc=%d: %s" % (rc, " ".join(out.split())[-600:])
        log.append("== " + coqchk_note)
        if rc != 0:
            lines.append("VIOLATION property=%s replay=%s no-failing-input-found" % (pid, os.path.join(replay_dir, pid + "-coqchk.txt")))
            open(os.path.join(replay_dir, pid + "-coqchk.txt"), "w").write(out)
            exit_code = 1
            nviol += 1

    # 6. evidence
    evals = sum(s.get("cases", 0) for s in stats_all)
    nontriv = sum(s.get("distinct_nontrivial", 0) for s in stats_all)
    samples = []
    for s in stats_all:
        samples += (s.get("samples") or [])[:2]
    samples += ["theorem " + t for t in props["theorems"][:6]]
    ev = dict(
        property_id=pid, tier=tier, seed=seed, level="proof",
        coverage=dict(
            obligations=props["obligations"],
            discharged=props["obligations"] if (built and props["ok"]) else 0,
            checker_cmd="coq_makefile -f coq/%s/_CoqProject && make (full .vo); coqc coq/%s/%s with Print Assumptions under every theorem%s" % (
                group, group, cfg["props_file"], "; coqchk -silent -o" if tier == "thorough" else "") +
                "".join("; the same for coq/%s/%s" % (x["group"], x["file"]) for x in cfg.get("extra_props", [])),
            trusted_base=cfg.get("trusted_base", []) + [
                "Coq 8.16.1 kernel incl. vm_compute (no native_compute)",
                "axioms reported by Print Assumptions: %s" % (", ".join(props["axioms"]) if props["axioms"] else "none (Closed under the global context x%d)" % props["closed"]),
                "correspondence check: Go harness (go test -overlay) + coqc evaluation of recorded cases; tools/check.py",
            ],
            theorems=props["theorems"],
            evaluations=evals, distinct_nontrivial=nontriv,
            traces_validated_against_impl=evals if not mismatches else 0,
            case_files=n_case_files, diverging_shards=len(mismatches),
            rule=cfg.get("rule", "cases generated from VERIF_SEED by the harness; non-trivial as counted by the harness (stats.json)"),
            samples=samples[:10] or ["(no cases)"],
            input_distribution=[dict(harness=s.get("harness"), steps=s.get("steps"), hist=s.get("hist")) for s in stats_all],
            monitor_failures=len(monitor_hits), known_findings_seen=sorted(seen_known),
            degraded_ties=[d[0] for d in degraded],
            coqchk=coqchk_note,
            exhaustive=False,
        ),
        assumptions=cfg.get("assumptions", []),
        wall_s=round(time.time() - t0, 1), violations=nviol,
    )
    os.makedirs(os.path.join(VERIF, "evidence"), exist_ok=True)
    if not replay and REPO == "/repo" and not os.environ.get("VERIF_NO_EVIDENCE") and only_h is None:
        json.dump(ev, open(os.path.join(VERIF, "evidence", pid + ".json"), "w"), indent=1)
    open(os.path.join(out_root, "log.txt"), "w").write("\n".join(log))
    for l in lines:
        print(l)
    print("check %s tier=%s seed=%s: theorems %d/%d, cases %d (files %d), monitor hits %d (known %d), diverging shards %d, broken %d, %.1fs -> %s" % (
        pid, tier, seed, ev["coverage"]["discharged"], props["obligations"], evals, n_case_files, len(monitor_hits),
        len(monitor_hits) - len(new_viol), len(mismatches), len(broken), time.time() - t0, "FAIL" if exit_code else "ok"))
    if exit_code:
        for b in broken:
            print("  broken: %s\n    %s" % (b[0], b[1][-1200:].replace("\n", "\n    ")))
        print("  log: %s" % os.path.join(out_root, "log.txt"))
    return exit_code


def setup():
    rc_all = 0
    groups = sorted({c["group"] for c in registered_cfgs()} | {h["group"] for c in registered_cfgs() for h in c.get("harness", []) if h.get("group")}
                    | {x["group"] for c in registered_cfgs() for x in c.get("extra_props", [])})
    for g in groups:
        log = []
        ok = build_group(g, log)
        print("coq group %s: %s" % (g, "ok" if ok else "FAILED"))
        if not ok:
            print(log[-1])
            rc_all = 1
    # warm the Go build cache (cgo sqlite) for every harness package
    for c in registered_cfgs():
        for h in c.get("harness", []):
            d = os.path.join(BUILD, "setup", c["id"])
            os.makedirs(d, exist_ok=True)
            ov = make_overlay(h, d)
            rc, out = sh(["go", "test", "-tags", h.get("tags", "verif"), "-vet=off", "-overlay", ov, "-count=1", "-run", "^$", h["pkg"]],
                         cwd=REPO, env=GOENV, timeout=3600)
            print("go harness %s %s: %s" % (c["id"], h["pkg"], "ok" if rc == 0 else "FAILED\n" + out[-2000:]))
            rc_all |= 1 if rc else 0
    return rc_all


def cfg_groups(c):
    """every Coq group a property's check compiles: its own, those of extra statement files, those of borrowed harnesses"""
    return {c["group"]} | {x["group"] for x in c.get("extra_props", [])} | {h["group"] for h in c.get("harness", []) if h.get("group")}


def manifest():
    cfgs = all_cfgs()
    ip = os.path.join(VERIF, "props", "INTEGRATED")
    if os.path.exists(ip):  # only checks the coordinator has integrated are registered
        integrated = set(open(ip).read().split())
        cfgs = [c for c in cfgs if c["id"] in integrated]
    props = [json.loads(l)["id"] for l in open(os.path.join(VERIF, "properties.jsonl"))]
    claimed = {c["id"] for c in cfgs}
    na_path = os.path.join(VERIF, "props", "not_applicable.json")
    na = json.load(open(na_path)) if os.path.exists(na_path) else {}
    checks = []
    for c in cfgs:
        checks.append(dict(
            property_id=c["id"],
            quick_cmd="python3 tools/check.py %s --tier quick" % c["id"],
            thorough_cmd="python3 tools/check.py %s --tier thorough" % c["id"],
            evidence_file="/verif/evidence/%s.json" % c["id"],
            replay_cmd_template="python3 tools/check.py %s --replay {path}" % c["id"],
            engine="coq-" + c["group"],
            level_claimed=dict(category="proof", text=c["level_text"], design_ref=c.get("design_ref", "DESIGN.md §3 " + c["id"])),
            level_note=c["level_note"], technique=c["technique"]))
    m = dict(
        version=1,
        setup_cmd="python3 tools/check.py --setup",
        hooks=dict(guard="verif",
                   enable="go test -tags verif -vet=off -overlay <overlay.json generated by tools/check.py> — harness files are add-only *_test.go files kept under /verif/harness/overlay and injected at build time; nothing is written into /repo",
                   baseline_off_cmd="cd /repo && go test -vet=off -count=1 -timeout 25m ./...",
                   source_commits=[], add_only=True),
        engines=[dict(name="coq-" + g, path="coq/" + g,
                      serves_properties=sorted(c["id"] for c in cfgs if g in cfg_groups(c)),
                      kind_free_text="Coq 8.16.1 model + theorems; correspondence via tools/check.py")
                 for g in sorted({g for c in cfgs for g in cfg_groups(c)})] +
                [dict(name=t, path="tools/" + t, serves_properties=sorted(c["id"] for c in cfgs if any(("tools/" + t) in " ".join(x["cmd"]) for x in c.get("gen", []))),
                      kind_free_text=txt) for t, txt in (
                    ("go2coq", "translator Go -> Gallina for the pure validators and accessors; output regenerated from /repo on every run and proved equal to the hand model"),
                    ("sqlgen", "translator SQL WHERE/JOIN/EXISTS -> Gallina predicates with SQLite affinity rules; regenerated on every run"),
                    ("txnscan", "go/ast scan: transaction structure table and closure table (variables a transaction closure assigns/reads); regenerated on every run"))],
        checks=checks,
        not_applicable=[dict(property_id=p, reason=na.get(p, "check not built yet in this session (see DESIGN.md §6)"))
                        for p in props if p not in claimed],
        notes="All checks: python3 tools/check.py <ID> --tier quick|thorough; VERIF_SEED selects the generated cases. known_findings.json lists recorded findings.")
    json.dump(m, open(os.path.join(VERIF, "MANIFEST.json"), "w"), indent=1)
    print("MANIFEST.json: %d checks, %d not_applicable" % (len(checks), len(m["not_applicable"])))
    return 0


def main():
    ap = argparse.ArgumentParser()
    ap.add_argument("pid", nargs="?")
    ap.add_argument("--tier", default=os.environ.get("VERIF_TIER", "quick"))
    ap.add_argument("--replay")
    ap.add_argument("--n", type=int)
    ap.add_argument("--setup", action="store_true")
    ap.add_argument("--manifest", action="store_true")
    a = ap.parse_args()
    if a.setup:
        sys.exit(setup())
    if a.manifest:
        sys.exit(manifest())
    seed = int(os.environ.get("VERIF_SEED", "1") or 1)
    tier = a.tier if a.tier in ("quick", "thorough") else "quick"
    sys.exit(run_check(a.pid, tier, seed, a.replay, a.n))


if __name__ == "__main__":
    main()
