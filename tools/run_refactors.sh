#!/bin/bash
# run_refactors.sh [name...]: run every behaviour-preserving refactoring kept under refactors/<name>/ (patch.diff, meta.json with
# "checks": [IDs]) through the listed quick checks on a scratch worktree; a refactoring must raise no alarm.  Writes refactors/<name>/result.json.
# Runs from wherever this copy of the tree lives (use a copy of /verif when other checks are running in /verif: translators write
# into the shared coq/*/gen directories).
V=$(cd "$(dirname "$0")/.." && pwd)
cd $V
names="$@"; [ -z "$names" ] && names=$(ls refactors | grep -v README)
for n in $names; do
  d=refactors/$n; [ -f $d/patch.diff ] || continue
  ids=$(python3 -c "import json;print(' '.join(json.load(open('$d/meta.json'))['checks']))")
  out=$(bash tools/run_patch.sh $V/$d/patch.diff rf-$n $ids 2>&1)
  echo "$out" > $d/run.log
  python3 - "$d" "$n" <<PY
import json,sys,re,time
d,n=sys.argv[1],sys.argv[2]
log=open(d+'/run.log').read()
res={}
for l in log.splitlines():
    m=re.search(r'check (C\d\d) .*-> (\w+)',l)
    if m: res[m.group(1)]=m.group(2)
viol=[l for l in log.splitlines() if 'VIOLATION' in l]
json.dump(dict(name=n,results=res,violations=viol,quiet=(not viol and res and all(v=='ok' for v in res.values())),at=time.strftime('%F %T')),open(d+'/result.json','w'),indent=1)
print(n,res,'ALARM' if viol else 'quiet')
PY
done
