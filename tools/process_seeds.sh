#!/bin/bash
# process_seeds.sh: stage delivered seeds, verify the unverified ones, run the checks of those without a result (2 in parallel)
cd /verif
bash tools/stage_seeds.sh
bash tools/verify_seeds.sh
for d in seeded/*/; do n=$(basename $d); [ -f $d/result.json ] && continue
  python3 -c "import json,sys;sys.exit(0 if json.load(open('$d/verify.json')).get('confirmed') else 1)" 2>/dev/null && echo $n; done \
 | xargs -P2 -I{} sh -c 'python3 tools/seed.py run {} > seeded/{}/run.log 2>&1; tail -1 seeded/{}/run.log | cut -c1-260'
