#!/bin/bash
# run_patch.sh <patch.diff> <tag> <ID>...: apply a patch to a scratch worktree of /repo and run the given checks on it
V=$(cd "$(dirname "$0")/.." && pwd)
p=$1; tag=$2; shift 2
export GOPROXY=off GOSUMDB=off GOTOOLCHAIN=local
wt=/tmp/rp-$tag
git -C /repo worktree remove --force $wt 2>/dev/null
git -C /repo worktree add -q $wt HEAD || exit 2
git -C $wt apply $p || { echo "patch does not apply"; git -C /repo worktree remove --force $wt; exit 2; }
for id in "$@"; do
  VERIF_REPO=$wt VERIF_RUNTAG=-rp-$tag VERIF_NO_EVIDENCE=1 python3 $V/tools/check.py $id --tier ${TIER:-quick} 2>&1 | grep -v "^KNOWN" | grep "VIOLATION\|^check\|broken:" | cut -c1-300 | sed "s/^/[$tag] /"
done
git -C /repo worktree remove --force $wt
