#!/bin/bash
# verify every staged seed that has no verify.json yet (3 in parallel)
cd /verif
ls -d seeded/*/ | while read d; do [ -f $d/verify.json ] || echo $d; done | xargs -P3 -I{} sh -c 'python3 tools/seed.py verify {} > {}/verify.log 2>&1'
