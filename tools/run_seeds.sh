#!/bin/bash
# run_seeds.sh <ID>... : run every staged seed of the given properties against its check (2 in parallel)
cd /verif
for id in "$@"; do ls -d seeded/$id-*/ 2>/dev/null; done | xargs -n1 basename | xargs -P2 -I{} sh -c 'python3 tools/seed.py run {} > seeded/{}/run.log 2>&1; tail -1 seeded/{}/run.log'
