#!/usr/bin/env python3
"""tools/seed_prompt.py <ID> <mutA> <mutB> — print the brief given to a fresh sub-agent that writes
two seeded breaking changes for one property.  The agent sees the property text and a scratch
worktree only (nothing from /verif); sites used by earlier seeded changes are listed as excluded so
that the new changes land elsewhere."""
import json, os, sys, glob

VERIF = os.path.dirname(os.path.dirname(os.path.abspath(__file__)))
pid, ma, mb = sys.argv[1], sys.argv[2], sys.argv[3]
prop = [json.loads(l) for l in open(os.path.join(VERIF, "properties.jsonl")) if json.loads(l)["id"] == pid][0]
excl = []
for d in sorted(glob.glob(os.path.join(VERIF, "seeded", pid + "-mut*"))):
    m = json.load(open(os.path.join(d, "meta.json")))
    excl.append("- %s: %s" % (", ".join(m.get("files_changed", [])), m.get("needs", "")[:220]))
wt = "/tmp/seedwt-%s" % pid
out = "/tmp/seedout/%s" % pid
print(f"""You are helping to evaluate a verification effort for the Go project SiaFoundation/hostd (a Sia
storage-provider daemon).  Your job is to write TWO realistic *breaking changes* ("seeded defects")
to hostd that violate the semantic property below while still compiling and passing the whole
existing test suite.  They will be used to test whether an independent checker notices them.

PROPERTY {pid} — {prop['title']}
Statement: {prop['statement']}
Quantifier: {prop['quantifier']['text']}

Work ONLY in your own scratch git worktree of the repository (never touch /repo itself, never read
or write anything under /verif):

  export GOPROXY=off GOSUMDB=off GOTOOLCHAIN=local GOFLAGS=
  git -C /repo worktree add {wt} HEAD        # create it (remove a stale one first with: git -C /repo worktree remove --force {wt})

There is no network.  `go build ./...` and `go test -vet=off -count=1 ./<pkg>/` work offline in the
worktree (first sqlite cgo compile takes about a minute).  The whole suite is
`go test -vet=off -count=1 -timeout 25m ./...` (about 2 minutes).

What each change must be:
* a small edit (typically 1-15 lines, one or two sites) to non-test Go source of hostd of the kind
  a maintainer could plausibly make by mistake during a refactoring or an "optimisation": a
  condition off by one, a dropped/misplaced statement, a wrong variable or column, a lock released
  too early, an ordering change, an error path that forgets cleanup, a cache not updated, ...
* it must BREAK the property above (some input, operation sequence, interleaving, fault point or
  history exists on which the statement becomes false);
* it must NOT be exposed by ordinary use: it must need something specific to manifest — a particular
  interleaving, a crash or fault at a particular point, a multi-step sequence of operations, an
  unusual input, or two cooperating sites that each look fine alone;
* the code must still compile and the ENTIRE existing test suite must still pass with it;
* the two changes must be at different sites and of different kinds, and must NOT reuse the sites /
  mechanisms already used by earlier changes for this property:
{chr(10).join(excl) if excl else '  (none)'}

For each change also write a DEMONSTRATION: a Go test file (package-internal `_test.go`, name
`seeded_{pid.lower()}_<mut>_test.go`, test name `TestSeeded{pid}<Mut>` e.g. TestSeeded{pid}{ma.capitalize()}) placed in
one package directory of the repo, that PASSES on the unchanged code and FAILS with your change
applied, exhibiting the violation of the property (not merely "the code differs").  Use the
repository's own test helpers (internal/testutil, the existing tests of that package show how to build
a store / managers / a test chain).  It must be deterministic (no flaky timing; for interleavings use
channels/hooks you can control from the test, e.g. a blocking store wrapper, not sleeps).

Deliver, for mut in ({ma}, {mb}), a directory {out}/<mut>/ containing:
  patch.diff   — `git diff` of the change only (no test file), applies to /repo HEAD with `git apply`
  <demo test file>
  meta.json    — {{"property": "{pid}", "needs": "<what it needs in order to manifest, 1-3 sentences>",
                  "demo_file": "<file name>", "demo_dir": "<package dir relative to repo root, e.g. persist/sqlite>",
                  "demo_cmd": "go test -vet=off -count=1 -run <TestName> ./<demo_dir>/",
                  "files_changed": ["<path>", ...]}}
  README.md    — what the change is, why it breaks the property, why existing tests do not see it

Before delivering each one, confirm yourself, in the worktree: (1) demo passes on clean HEAD;
(2) with the patch applied: `go build ./...` ok, the demo FAILS, and the whole suite
`go test -vet=off -count=1 -timeout 25m ./...` (without your demo file present) passes.  Never use `git stash` (the stash stack is shared by
all worktrees of /repo and other agents work in sibling worktrees): save your change with `git diff > file` and re-apply it with `git apply`.  Reset the
worktree between the two changes (`git -C {wt} checkout -- . && git -C {wt} clean -fd`).  At the end remove the
worktree: `git -C /repo worktree remove --force {wt}`.

Final message: for each change 3-6 lines (site, what it breaks, what it needs, what you ran).""")
