#!/bin/bash
# stage delivered seeded changes from /tmp/seedout/<ID>/<mut> into /verif/seeded/<ID>-<mut>
for d in /tmp/seedout/C*/mut*; do
  id=$(basename $(dirname $d)); m=$(basename $d); t=/verif/seeded/$id-$m
  [ -f $d/meta.json ] || continue
  [ -d $t ] && continue
  mkdir -p $t; cp $d/patch.diff $d/meta.json $t/; cp $d/README.md $t/ 2>/dev/null
  f=$(python3 -c "import json;print(json.load(open('$d/meta.json'))['demo_file'])"); cp $d/$f $t/ 2>/dev/null || cp $d/$(basename $f) $t/
  python3 - <<PY
import json,os
p='$t/meta.json'; m=json.load(open(p))
m['demo_file']=os.path.basename(m['demo_file'])
dd=m['demo_dir'].strip('./').rstrip('/')
m['demo_dir']=dd
cmd=m.get('demo_cmd','')
m['demo_run']=cmd.replace('./'+dd+'/','.').replace('./'+dd,'.')
json.dump(m,open(p,'w'),indent=1)
PY
  echo staged $t
done
