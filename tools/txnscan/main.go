// txnscan — translator for property C09.
//
// Reads the Go source of $VERIF_REPO (default /repo) with go/parser and emits
// coq/Txn/gen/TxnTable.v:
//
//   - store_methods: for every exported method of sqlite.Store its transaction structure
//     (the sequence of Store.transaction calls it makes, loops flattened to SLoopTxn,
//     statements on the raw *sql.DB as SRaw, calls of caller-supplied functions outside a
//     transaction as SExt) and whether any SQL it can reach writes (INSERT/UPDATE/DELETE/
//     REPLACE or a caller-supplied function run inside the transaction);
//   - mgr_methods: for every method of the managers that both calls a writing store
//     method and touches the manager's in-memory cache, where the cache write sits
//     relative to the store call and its error check;
//   - the calls index.Manager.syncDB makes inside the UpdateChainState closure and
//     between the commit and the update of its in-memory tip.
//
// and (closures.go, -closures coq/Txn/gen/ClosureTable.v) every closure handed to
// Store.transaction as a command of coq/Txn/Retry.v: control structure plus, per statement,
// the variables it assigns and reads — so that closed_closure can be computed on the real code.
//
// Usage: go run tools/txnscan/main.go tools/txnscan/closures.go -out coq/Txn/TxnTable.v -closures coq/Txn/gen/ClosureTable.v
//
// Anything it does not understand is a hard error (non-zero exit), never a silent skip.
package main

import (
	"flag"
	"fmt"
	"go/ast"
	"go/build/constraint"
	"go/parser"
	"go/token"
	"os"
	"path/filepath"
	"regexp"
	"sort"
	"strconv"
	"strings"
)

var fset = token.NewFileSet()

func fatal(f string, a ...any) {
	fmt.Fprintf(os.Stderr, "txnscan: "+f+"\n", a...)
	os.Exit(2)
}

// parseDir parses the non-test files of a package directory that are part of the default build.
func parseDir(dir string) []*ast.File {
	ents, err := os.ReadDir(dir)
	if err != nil {
		fatal("%v", err)
	}
	var files []*ast.File
	for _, e := range ents {
		n := e.Name()
		if !strings.HasSuffix(n, ".go") || strings.HasSuffix(n, "_test.go") {
			continue
		}
		if strings.HasSuffix(n, "_windows.go") {
			continue
		}
		src, err := os.ReadFile(filepath.Join(dir, n))
		if err != nil {
			fatal("%v", err)
		}
		f, err := parser.ParseFile(fset, filepath.Join(dir, n), src, parser.ParseComments)
		if err != nil {
			fatal("%v", err)
		}
		if !defaultBuild(f) {
			continue
		}
		files = append(files, f)
	}
	if len(files) == 0 {
		fatal("no Go files in %s", dir)
	}
	return files
}

func defaultBuild(f *ast.File) bool {
	for _, cg := range f.Comments {
		if cg.Pos() > f.Package {
			break
		}
		for _, c := range cg.List {
			if constraint.IsGoBuild(c.Text) {
				x, err := constraint.Parse(c.Text)
				if err != nil {
					fatal("%v", err)
				}
				return x.Eval(func(tag string) bool { return tag == "linux" || tag == "amd64" || tag == "cgo" })
			}
		}
	}
	return true
}

type fn struct {
	recv    string // receiver type name, "" for functions
	name    string
	decl    *ast.FuncDecl
	sqlW    bool            // an SQL literal in the body writes
	callees map[string]bool // keys of called functions/methods (by bare name)
	params  map[string]bool // names of parameters of function type
}

var sqlWrite = regexp.MustCompile(`(?i)\b(INSERT\s+INTO|UPDATE\s+\w+\s+SET|DELETE\s+FROM|REPLACE\s+INTO|VACUUM)\b`)
var sqlComment = regexp.MustCompile(`--[^\n]*`)

func recvName(d *ast.FuncDecl) string {
	if d.Recv == nil || len(d.Recv.List) == 0 {
		return ""
	}
	t := d.Recv.List[0].Type
	if s, ok := t.(*ast.StarExpr); ok {
		t = s.X
	}
	if id, ok := t.(*ast.Ident); ok {
		return id.Name
	}
	return ""
}

func recvVar(d *ast.FuncDecl) string {
	if d.Recv == nil || len(d.Recv.List) == 0 || len(d.Recv.List[0].Names) == 0 {
		return ""
	}
	return d.Recv.List[0].Names[0].Name
}

func collect(files []*ast.File) (map[string][]*fn, map[string]string) {
	byName := map[string][]*fn{}
	consts := map[string]string{} // package-level string constants
	for _, f := range files {
		for _, d := range f.Decls {
			switch d := d.(type) {
			case *ast.GenDecl:
				if d.Tok != token.CONST && d.Tok != token.VAR {
					continue
				}
				for _, sp := range d.Specs {
					vs := sp.(*ast.ValueSpec)
					for i, n := range vs.Names {
						if i < len(vs.Values) {
							if bl, ok := vs.Values[i].(*ast.BasicLit); ok && bl.Kind == token.STRING {
								s, _ := strconv.Unquote(bl.Value)
								consts[n.Name] = s
							}
						}
					}
				}
			case *ast.FuncDecl:
				if d.Body == nil {
					continue
				}
				x := &fn{recv: recvName(d), name: d.Name.Name, decl: d, callees: map[string]bool{}, params: map[string]bool{}}
				for _, p := range d.Type.Params.List {
					isFunc := false
					switch t := p.Type.(type) {
					case *ast.FuncType:
						isFunc = true
					case *ast.SelectorExpr: // storage.StoreFunc, storage.MigrateFunc
						isFunc = strings.HasSuffix(t.Sel.Name, "Func")
					}
					if isFunc {
						for _, n := range p.Names {
							x.params[n.Name] = true
						}
					}
				}
				byName[x.name] = append(byName[x.name], x)
			}
		}
	}
	return byName, consts
}

var driverNames = map[string]bool{"Exec": true, "Query": true, "QueryRow": true, "Prepare": true, "Scan": true, "Next": true,
	"Close": true, "Err": true, "ExecContext": true, "QueryContext": true, "QueryRowContext": true, "Commit": true, "Rollback": true,
	"RowsAffected": true, "Begin": true}

func analyse(byName map[string][]*fn, consts map[string]string) {
	for _, fs := range byName {
		for _, x := range fs {
			ast.Inspect(x.decl.Body, func(n ast.Node) bool {
				switch n := n.(type) {
				case *ast.BasicLit:
					if n.Kind == token.STRING {
						s, err := strconv.Unquote(n.Value)
						if err == nil && sqlWrite.MatchString(sqlComment.ReplaceAllString(s, "")) {
							x.sqlW = true
						}
					}
				case *ast.Ident:
					if s, ok := consts[n.Name]; ok && sqlWrite.MatchString(sqlComment.ReplaceAllString(s, "")) {
						x.sqlW = true
					}
				case *ast.CallExpr:
					switch f := n.Fun.(type) {
					case *ast.Ident:
						x.callees[f.Name] = true
					case *ast.SelectorExpr:
						if !driverNames[f.Sel.Name] {
							x.callees[f.Sel.Name] = true
						}
					}
				}
				return true
			})
		}
	}
}

// writes: can a call of x reach SQL that writes (or a caller-supplied function run with the transaction)?
func writes(byName map[string][]*fn, x *fn, seen map[*fn]bool) bool {
	if seen[x] {
		return false
	}
	seen[x] = true
	if x.sqlW {
		return true
	}
	for c := range x.callees {
		if x.params[c] {
			continue
		}
		for _, y := range byName[c] {
			if y.recv == "Store" && c == "transaction" {
				continue
			}
			if writes(byName, y, seen) {
				return true
			}
		}
	}
	return false
}

// ---------------------------------------------------------------- transaction shape

type shapeCtx struct {
	byName map[string][]*fn
	x      *fn
	rv     string
	stack  map[*fn]bool
}

func isSel(e ast.Expr, x, sel string) bool {
	s, ok := e.(*ast.SelectorExpr)
	if !ok || s.Sel.Name != sel {
		return false
	}
	id, ok := s.X.(*ast.Ident)
	return ok && id.Name == x
}

// shapeOf returns the flattened transaction structure of a function body.
func (c *shapeCtx) shapeOf(body ast.Node, inLoop bool) (out []string, extInTxn bool) {
	var walk func(n ast.Node, inLoop bool)
	walk = func(n ast.Node, inLoop bool) {
		if n == nil {
			return
		}
		switch n := n.(type) {
		case *ast.ForStmt:
			walk(n.Init, inLoop)
			walk(n.Cond, inLoop)
			walk(n.Post, true)
			walk(n.Body, true)
			return
		case *ast.RangeStmt:
			walk(n.X, inLoop)
			walk(n.Body, true)
			return
		case *ast.FuncLit:
			// a closure that is not a transaction body: its calls happen when it is invoked;
			// treated in place (conservative)
			walk(n.Body, inLoop)
			return
		case *ast.CallExpr:
			// s.transaction(func(tx *txn) error {...})
			if isSel(n.Fun, c.rv, "transaction") {
				if inLoop {
					out = append(out, "SLoopTxn")
				} else {
					out = append(out, "STxn")
				}
				// calls of caller-supplied functions inside the transaction body
				ast.Inspect(n.Args[0], func(m ast.Node) bool {
					if ce, ok := m.(*ast.CallExpr); ok {
						if id, ok := ce.Fun.(*ast.Ident); ok && c.x.params[id.Name] {
							extInTxn = true
						}
						if isSel(ce.Fun, c.rv, "transaction") {
							fatal("%s.%s: nested transaction", c.x.recv, c.x.name)
						}
					}
					return true
				})
				return
			}
			// raw use of the *sql.DB
			if s, ok := n.Fun.(*ast.SelectorExpr); ok {
				if isSel(s.X, c.rv, "db") && s.Sel.Name != "Close" {
					out = append(out, "SRaw")
				}
			}
			// caller-supplied function outside a transaction
			if id, ok := n.Fun.(*ast.Ident); ok && c.x.params[id.Name] {
				out = append(out, "SExt")
			}
			// other methods of the store / package functions taking the store
			var callee string
			if s, ok := n.Fun.(*ast.SelectorExpr); ok {
				if id, ok := s.X.(*ast.Ident); ok && id.Name == c.rv {
					callee = s.Sel.Name
				}
			} else if id, ok := n.Fun.(*ast.Ident); ok {
				callee = id.Name
			}
			if callee != "" && callee != "transaction" {
				for _, y := range c.byName[callee] {
					if y.recv != "Store" && y.recv != "" {
						continue
					}
					if y.recv == "" && !takesStoreOrDB(y) {
						continue
					}
					if c.stack[y] {
						fatal("recursive transaction structure at %s", y.name)
					}
					c.stack[y] = true
					sub := &shapeCtx{byName: c.byName, x: y, rv: recvVar(y.decl), stack: c.stack}
					sh, ext := sub.shapeOf(y.decl.Body, false)
					delete(c.stack, y)
					extInTxn = extInTxn || ext
					for _, it := range sh {
						if inLoop && it == "STxn" {
							it = "SLoopTxn"
						}
						out = append(out, it)
					}
				}
			}
			for _, a := range n.Args {
				walk(a, inLoop)
			}
			walk(n.Fun, inLoop)
			return
		}
		// generic descent in source order
		var kids []ast.Node
		ast.Inspect(n, func(m ast.Node) bool {
			if m == n {
				return true
			}
			if m != nil {
				kids = append(kids, m)
			}
			return false
		})
		for _, k := range kids {
			walk(k, inLoop)
		}
	}
	walk(body, inLoop)
	return
}

func takesStoreOrDB(y *fn) bool {
	for _, p := range y.decl.Type.Params.List {
		if s, ok := p.Type.(*ast.StarExpr); ok {
			switch t := s.X.(type) {
			case *ast.Ident:
				if t.Name == "Store" {
					return true
				}
			case *ast.SelectorExpr:
				if t.Sel.Name == "DB" {
					return true
				}
			}
		}
	}
	return false
}

// ---------------------------------------------------------------- managers

type mgrSpec struct {
	dir, typ string
	store    []string // selector suffixes that denote the store, e.g. "cm.store"
	cacheSet func(n ast.Node, rv string) bool
}

func selString(e ast.Expr) string {
	switch e := e.(type) {
	case *ast.Ident:
		return e.Name
	case *ast.SelectorExpr:
		return selString(e.X) + "." + e.Sel.Name
	case *ast.IndexExpr:
		return selString(e.X) + "[]"
	}
	return "?"
}

// cacheWriter builds a predicate: assignment to / delete from one of the fields, or call of one of the setters.
func cacheWriter(fields []string, setters []string) func(n ast.Node, rv string) bool {
	return func(n ast.Node, rv string) bool {
		match := func(e ast.Expr) bool {
			s := selString(e)
			for _, f := range fields {
				if strings.HasSuffix(s, "."+f) || strings.HasSuffix(s, "."+f+"[]") || strings.Contains(s, "."+f+".") {
					return true
				}
			}
			return false
		}
		switch n := n.(type) {
		case *ast.AssignStmt:
			for _, l := range n.Lhs {
				if match(l) {
					return true
				}
			}
		case *ast.IncDecStmt:
			return match(n.X)
		case *ast.CallExpr:
			if id, ok := n.Fun.(*ast.Ident); ok && id.Name == "delete" && len(n.Args) > 0 && match(&ast.IndexExpr{X: n.Args[0]}) {
				return true
			}
			if s, ok := n.Fun.(*ast.SelectorExpr); ok {
				for _, st := range setters {
					if s.Sel.Name == st {
						return true
					}
				}
			}
		}
		return false
	}
}

type mgrRow struct {
	typ, name string
	store     []string
	cache     string
}

func returnsAtEnd(b *ast.BlockStmt) bool {
	if b == nil || len(b.List) == 0 {
		return false
	}
	switch s := b.List[len(b.List)-1].(type) {
	case *ast.ReturnStmt:
		return true
	case *ast.ExprStmt:
		if c, ok := s.X.(*ast.CallExpr); ok {
			if id, ok := c.Fun.(*ast.Ident); ok && id.Name == "panic" {
				return true
			}
		}
	}
	return false
}

func isErrNotNil(e ast.Expr) bool {
	b, ok := e.(*ast.BinaryExpr)
	if !ok || b.Op != token.NEQ {
		return false
	}
	x, ok1 := b.X.(*ast.Ident)
	y, ok2 := b.Y.(*ast.Ident)
	return ok1 && ok2 && strings.Contains(strings.ToLower(x.Name), "err") && y.Name == "nil"
}

// guarded: is the call at pos `call` followed by an error check that leaves the function?
func guarded(body *ast.BlockStmt, call *ast.CallExpr) bool {
	ok := false
	var visitBlock func(list []ast.Stmt)
	contains := func(n ast.Node) bool { return n != nil && n.Pos() <= call.Pos() && call.End() <= n.End() }
	var visitIf func(s *ast.IfStmt) bool
	visitIf = func(s *ast.IfStmt) bool {
		// if err := call(); err != nil { return } [else if ...]
		if s.Init != nil && contains(s.Init) && isErrNotNil(s.Cond) && returnsAtEnd(s.Body) {
			return true
		}
		if e, isIf := s.Else.(*ast.IfStmt); isIf {
			return visitIf(e)
		}
		return false
	}
	visitBlock = func(list []ast.Stmt) {
		for i, st := range list {
			if !contains(st) {
				continue
			}
			switch s := st.(type) {
			case *ast.IfStmt:
				if visitIf(s) {
					ok = true
					return
				}
			case *ast.AssignStmt:
				// x, err := call(); if err != nil { return }
				if i+1 < len(list) {
					if nxt, isIf := list[i+1].(*ast.IfStmt); isIf && nxt.Init == nil && isErrNotNil(nxt.Cond) && returnsAtEnd(nxt.Body) {
						ok = true
						return
					}
				}
			case *ast.ReturnStmt:
				ok = true // return store.X(...): nothing runs afterwards
				return
			}
			// descend into nested blocks
			ast.Inspect(st, func(n ast.Node) bool {
				if b, isB := n.(*ast.BlockStmt); isB && contains(b) && n != st {
					visitBlock(b.List)
					return false
				}
				return true
			})
		}
	}
	visitBlock(body.List)
	return ok
}

func scanManagers(repo string, storeWriters map[string]bool) []mgrRow {
	specs := []mgrSpec{
		{"host/contracts", "Manager", []string{"store"}, cacheWriter([]string{"sectorRoots"}, []string{"setSectorRoots"})},
		{"host/contracts", "ContractUpdater", []string{"store"}, cacheWriter(nil, []string{"setSectorRoots"})},
		{"host/accounts", "AccountManager", []string{"store"}, cacheWriter([]string{"balances"}, nil)},
		{"host/accounts", "Budget", []string{"store"}, cacheWriter([]string{"balances"}, nil)},
		{"host/settings", "ConfigManager", []string{"store"}, cacheWriter([]string{"settings"}, nil)},
		{"webhooks", "Manager", []string{"store"}, cacheWriter([]string{"hooks"}, []string{"addHookScopes", "removeHookScopes"})},
		{"host/storage", "VolumeManager", []string{"vs"}, cacheWriter([]string{"volumes"}, []string{"initVolume"})},
		{"host/registry", "Manager", []string{"store"}, cacheWriter(nil, nil)},
		{"index", "Manager", []string{"store"}, cacheWriter([]string{"index"}, nil)},
	}
	var rows []mgrRow
	parsed := map[string][]*ast.File{}
	for _, sp := range specs {
		files, ok := parsed[sp.dir]
		if !ok {
			files = parseDir(filepath.Join(repo, sp.dir))
			parsed[sp.dir] = files
		}
		found := false
		// helper methods of the type that write the cache and make no store call (found
		// automatically, e.g. a setter extracted by a refactoring): a call of one of them through
		// the receiver is a cache write of the calling method
		autoSetters := map[string]bool{}
		for _, f := range files {
			for _, d := range f.Decls {
				fd, ok := d.(*ast.FuncDecl)
				if !ok || fd.Body == nil || recvName(fd) != sp.typ {
					continue
				}
				rv := recvVar(fd)
				writes, stores := false, false
				ast.Inspect(fd.Body, func(n ast.Node) bool {
					if n == nil {
						return true
					}
					if ce, ok := n.(*ast.CallExpr); ok {
						if s, ok := ce.Fun.(*ast.SelectorExpr); ok {
							recvS := selString(s.X)
							for _, st := range sp.store {
								if (recvS == rv+"."+st || strings.HasSuffix(recvS, "."+st)) && storeWriters[s.Sel.Name] {
									stores = true
								}
							}
						}
					}
					if sp.cacheSet(n, rv) {
						writes = true
					}
					return true
				})
				if writes && !stores {
					autoSetters[fd.Name.Name] = true
				}
			}
		}
		for _, f := range files {
			for _, d := range f.Decls {
				fd, ok := d.(*ast.FuncDecl)
				if !ok || fd.Body == nil || recvName(fd) != sp.typ {
					continue
				}
				found = true
				rv := recvVar(fd)
				var storeCalls []*ast.CallExpr
				var storeNames []string
				var cachePos []token.Pos
				ast.Inspect(fd.Body, func(n ast.Node) bool {
					if n == nil {
						return true
					}
					if ce, ok := n.(*ast.CallExpr); ok {
						if s, ok := ce.Fun.(*ast.SelectorExpr); ok {
							recvS := selString(s.X)
							for _, st := range sp.store {
								if (recvS == rv+"."+st || strings.HasSuffix(recvS, "."+st)) && storeWriters[s.Sel.Name] {
									storeCalls = append(storeCalls, ce)
									storeNames = append(storeNames, s.Sel.Name)
								}
							}
						}
					}
					if sp.cacheSet(n, rv) {
						cachePos = append(cachePos, n.Pos())
					} else if ce, ok := n.(*ast.CallExpr); ok {
						if s, ok := ce.Fun.(*ast.SelectorExpr); ok && selString(s.X) == rv && autoSetters[s.Sel.Name] && s.Sel.Name != fd.Name.Name {
							cachePos = append(cachePos, n.Pos())
						}
					}
					return true
				})
				if len(storeCalls) == 0 && len(cachePos) == 0 {
					continue
				}
				row := mgrRow{typ: filepath.Base(sp.dir) + "." + sp.typ, name: fd.Name.Name, store: storeNames}
				switch {
				case len(storeCalls) == 0:
					row.cache = "CacheOnly"
				case len(cachePos) == 0:
					row.cache = "StoreOnly"
				default:
					row.cache = "CacheAfterOk"
					for _, cp := range cachePos {
						// the store call that precedes this cache write most closely
						var prev *ast.CallExpr
						for _, sc := range storeCalls {
							if sc.End() <= cp && (prev == nil || sc.Pos() > prev.Pos()) {
								prev = sc
							}
						}
						if prev == nil {
							row.cache = "CacheBeforeStore"
							break
						}
						if !guarded(fd.Body, prev) {
							row.cache = "CacheAfterUnchecked"
						}
					}
				}
				rows = append(rows, row)
			}
		}
		if !found {
			fatal("no methods of %s.%s found", sp.dir, sp.typ)
		}
	}
	sort.Slice(rows, func(i, j int) bool {
		if rows[i].typ != rows[j].typ {
			return rows[i].typ < rows[j].typ
		}
		return rows[i].name < rows[j].name
	})
	return rows
}

// scanSync extracts from index.Manager.syncDB the calls made inside the closure given to
// store.UpdateChainState and the calls between that statement and the assignment of m.index.
func scanSync(repo string) (inTxn, between []string) {
	files := parseDir(filepath.Join(repo, "index"))
	// methods of Manager whose body assigns the receiver's index field: a call of one of them
	// counts as the assignment of m.index (the assignment may live in a helper)
	tipSetters := map[string]bool{}
	for _, f := range files {
		for _, d := range f.Decls {
			fd, ok := d.(*ast.FuncDecl)
			if !ok || fd.Body == nil || recvName(fd) != "Manager" || fd.Name.Name == "syncDB" {
				continue
			}
			ast.Inspect(fd.Body, func(n ast.Node) bool {
				if as, ok := n.(*ast.AssignStmt); ok {
					for _, l := range as.Lhs {
						if selString(l) == recvVar(fd)+".index" {
							tipSetters[fd.Name.Name] = true
						}
					}
				}
				return true
			})
		}
	}
	for _, f := range files {
		for _, d := range f.Decls {
			fd, ok := d.(*ast.FuncDecl)
			if !ok || fd.Name.Name != "syncDB" || recvName(fd) != "Manager" {
				continue
			}
			var txCall *ast.CallExpr
			var tipAssign token.Pos
			// the store transaction may live in a method of Manager called from syncDB (e.g. an
			// extracted applyBatch): the call of that method then stands for the transaction
			// statement, the closure handed to store.UpdateChainState is looked up inside it
			txInHelper := map[string]*ast.CallExpr{}
			for _, f2 := range files {
				for _, d2 := range f2.Decls {
					fd2, ok := d2.(*ast.FuncDecl)
					if !ok || fd2.Body == nil || recvName(fd2) != "Manager" || fd2.Name.Name == "syncDB" {
						continue
					}
					ast.Inspect(fd2.Body, func(n ast.Node) bool {
						if ce, ok := n.(*ast.CallExpr); ok {
							if s2, ok := ce.Fun.(*ast.SelectorExpr); ok && s2.Sel.Name == "UpdateChainState" && strings.HasSuffix(selString(s2.X), ".store") {
								txInHelper[fd2.Name.Name] = ce
							}
						}
						return true
					})
				}
			}
			var txInner *ast.CallExpr // the store.UpdateChainState call itself when it lives in a helper
			ast.Inspect(fd.Body, func(n ast.Node) bool {
				switch n := n.(type) {
				case *ast.CallExpr:
					if s, ok := n.Fun.(*ast.SelectorExpr); ok && selString(s.X) == recvVar(fd) && txInHelper[s.Sel.Name] != nil && txCall == nil {
						txCall, txInner = n, txInHelper[s.Sel.Name]
					} else if s, ok := n.Fun.(*ast.SelectorExpr); ok && s.Sel.Name == "UpdateChainState" && strings.HasSuffix(selString(s.X), ".store") {
						if txCall != nil {
							fatal("syncDB: more than one store.UpdateChainState call")
						}
						txCall = n
					} else if ok && selString(s.X) == recvVar(fd) && tipSetters[s.Sel.Name] && txCall != nil && n.Pos() > txCall.End() && tipAssign == 0 {
						tipAssign = n.Pos()
					}
				case *ast.AssignStmt:
					for _, l := range n.Lhs {
						if selString(l) == recvVar(fd)+".index" && txCall != nil && n.Pos() > txCall.End() && tipAssign == 0 {
							tipAssign = n.Pos()
						}
					}
				}
				return true
			})
			if txCall == nil || tipAssign == 0 {
				fatal("syncDB: store.UpdateChainState call or m.index assignment not found")
			}
			callName := func(ce *ast.CallExpr) string {
				s, ok := ce.Fun.(*ast.SelectorExpr)
				if !ok {
					return ""
				}
				r := selString(s.X)
				r = strings.TrimPrefix(r, recvVar(fd)+".")
				return r + "." + s.Sel.Name
			}
			interesting := func(name string) bool {
				return strings.HasSuffix(name, ".UpdateChainState") || strings.HasSuffix(name, ".ProcessActions") || strings.HasSuffix(name, ".SetLastIndex") || strings.HasSuffix(name, ".ResetChainState")
			}
			txBody := ast.Node(nil)
			if txInner != nil {
				txBody = txInner.Args[0]
			} else {
				txBody = txCall.Args[0]
			}
			ast.Inspect(txBody, func(n ast.Node) bool {
				if ce, ok := n.(*ast.CallExpr); ok {
					if nm := callName(ce); interesting(nm) {
						inTxn = append(inTxn, nm)
					}
				}
				return true
			})
			ast.Inspect(fd.Body, func(n ast.Node) bool {
				if ce, ok := n.(*ast.CallExpr); ok && ce.Pos() > txCall.End() && ce.Pos() < tipAssign {
					if nm := callName(ce); interesting(nm) {
						between = append(between, nm)
					}
				}
				return true
			})
			return
		}
	}
	fatal("index.Manager.syncDB not found")
	return
}

func coqStrList(l []string) string {
	q := make([]string, len(l))
	for i, s := range l {
		q[i] = strconv.Quote(s)
	}
	return "[" + strings.Join(q, "; ") + "]"
}

func main() {
	repo := os.Getenv("VERIF_REPO")
	if repo == "" {
		repo = "/repo"
	}
	out := flag.String("out", "", "output file (default stdout)")
	flag.StringVar(&repo, "repo", repo, "repository root")
	clOut := flag.String("closures", "", "output file for the closure table (coq/Txn/gen/ClosureTable.v)")
	clDebug := flag.Bool("closures-debug", false, "print a summary of the closure analysis and exit")
	flag.Parse()

	if *clDebug {
		debugClosures(scanClosures(repo))
		return
	}
	if *clOut != "" {
		writeIfChanged(*clOut, emitClosures(scanClosures(repo))+emitRetryLoop(repo))
	}

	files := parseDir(filepath.Join(repo, "persist/sqlite"))
	byName, consts := collect(files)
	analyse(byName, consts)

	var sb strings.Builder
	sb.WriteString("(* GENERATED by tools/txnscan from persist/sqlite, the managers and index/update.go.\n   Regenerated on every check run; do not edit. *)\n")
	sb.WriteString("From Coq Require Import List String.\nFrom HostdTxn Require Import Shape.\nImport ListNotations.\nLocal Open Scope string_scope.\n\n")
	sb.WriteString("Definition store_methods : list store_method := [\n")
	var names []string
	store := map[string]*fn{}
	for n, fs := range byName {
		for _, x := range fs {
			if x.recv == "Store" && ast.IsExported(n) {
				names = append(names, n)
				store[n] = x
			}
		}
	}
	sort.Strings(names)
	writers := map[string]bool{}
	var lines []string
	for _, n := range names {
		x := store[n]
		c := &shapeCtx{byName: byName, x: x, rv: recvVar(x.decl), stack: map[*fn]bool{x: true}}
		sh, ext := c.shapeOf(x.decl.Body, false)
		w := writes(byName, x, map[*fn]bool{}) || ext
		for _, it := range sh {
			if it == "SRaw" && x.sqlW {
				w = true
			}
		}
		if w {
			writers[n] = true
		}
		lines = append(lines, fmt.Sprintf("  {| sm_name := %q; sm_shape := [%s]; sm_ext_in_txn := %v; sm_writes := %v |}", n, strings.Join(sh, "; "), ext, w))
	}
	sb.WriteString(strings.Join(lines, ";\n"))
	sb.WriteString("\n].\n\n")

	sb.WriteString("Definition mgr_methods : list mgr_method := [\n")
	lines = lines[:0]
	for _, r := range scanManagers(repo, writers) {
		lines = append(lines, fmt.Sprintf("  {| mm_type := %q; mm_name := %q; mm_store := %s; mm_cache := %s |}", r.typ, r.name, coqStrList(r.store), r.cache))
	}
	sb.WriteString(strings.Join(lines, ";\n"))
	sb.WriteString("\n].\n\n")

	inTxn, between := scanSync(repo)
	sb.WriteString("(* index.Manager.syncDB: calls inside the closure run by store.UpdateChainState, and calls\n   between that transaction and the update of the manager's in-memory tip *)\n")
	sb.WriteString("Definition sync_in_txn : list string := " + coqStrList(inTxn) + ".\n")
	sb.WriteString("Definition sync_between_commit_and_tip : list string := " + coqStrList(between) + ".\n")

	if *out == "" {
		fmt.Print(sb.String())
		return
	}
	writeIfChanged(*out, sb.String())
}

// writeIfChanged writes only when the content changed, so an unchanged table does not trigger a rebuild
func writeIfChanged(path, content string) {
	if err := os.MkdirAll(filepath.Dir(path), 0o755); err != nil {
		fatal("%v", err)
	}
	if old, err := os.ReadFile(path); err == nil && string(old) == content {
		return
	}
	if err := os.WriteFile(path, []byte(content), 0o644); err != nil {
		fatal("%v", err)
	}
}
