// closures.go — second half of the C09 translator: the closures handed to Store.transaction.
//
// Store.transaction re-runs its closure after a "database is locked" error.  The database part
// of a failed attempt is rolled back by SQLite; what is NOT rolled back is the Go-side state the
// closure shares with the function it is written in (named results, counters, slices, maps of
// the enclosing function).  For every
//
//	<recv>.transaction(func(tx *txn) error { ... })           (persist/sqlite)
//	<x>.store.UpdateChainState(func(tx UpdateTx) error { ... }) (index/update.go; its closure is
//	                                                            run inside Store.transaction too)
//
// this file translates the closure body into the command language of coq/Txn/Retry.v: the
// control structure (sequence, if, loop, break/continue, return), and per statement the variables
// it assigns and the variables it reads.  Expressions and SQL statements themselves are not
// translated: they are numbered and stay uninterpreted (the theorems of Retry.v hold for every
// interpretation).  Variables declared in the enclosing function keep their name, variables
// declared inside the closure get a numbered name (x'3), so that shadowing cannot confuse the two.
//
// The Coq side (closed_closure, computed on the emitted terms) then decides whether a closure
// reads a variable it also writes before it has (re)initialised it in the same attempt — the one
// way state of a rolled-back attempt can reach the attempt that commits.
//
// Anything not understood (goto, labels, select, go statements, assignments to things that are
// not variables of the function, nested function literals that assign captured variables, ...)
// is a hard error.
package main

import (
	"fmt"
	"go/ast"
	"go/token"
	"path/filepath"
	"sort"
	"strconv"
	"strings"
)

// ---------------------------------------------------------------- command language (mirror of Retry.v)

type cmd struct {
	kind   string // skip assign call seq if while break continue return
	ws, rs []string
	id     int
	kids   []*cmd
	note   string
}

func (c *cmd) coq(sb *strings.Builder, ind string) {
	vs := func(l []string) string {
		q := make([]string, len(l))
		for i, s := range l {
			q[i] = strconv.Quote(s)
		}
		return "[" + strings.Join(q, "; ") + "]"
	}
	switch c.kind {
	case "skip":
		sb.WriteString(ind + "CSkip")
	case "assign":
		fmt.Fprintf(sb, "%sCAssign %s %s %d", ind, vs(c.ws), vs(c.rs), c.id)
	case "call":
		fmt.Fprintf(sb, "%sCCall %s %s %d", ind, vs(c.ws), vs(c.rs), c.id)
	case "seq":
		sb.WriteString(ind + "cseq [\n")
		for i, k := range c.kids {
			k.coq(sb, ind+"  ")
			if i+1 < len(c.kids) {
				sb.WriteString(";")
			}
			sb.WriteString("\n")
		}
		sb.WriteString(ind + "]")
	case "if":
		fmt.Fprintf(sb, "%sCIf %s %d\n", ind, vs(c.rs), c.id)
		sb.WriteString(ind + " (\n")
		c.kids[0].coq(sb, ind+"  ")
		sb.WriteString("\n" + ind + " ) (\n")
		c.kids[1].coq(sb, ind+"  ")
		sb.WriteString("\n" + ind + " )")
	case "while":
		fmt.Fprintf(sb, "%sCWhile %s %d (\n", ind, vs(c.rs), c.id)
		c.kids[0].coq(sb, ind+"  ")
		sb.WriteString("\n" + ind + " )")
	case "break":
		sb.WriteString(ind + "CBreak")
	case "continue":
		sb.WriteString(ind + "CContinue")
	case "return":
		fmt.Fprintf(sb, "%sCReturn %s %d", ind, vs(c.rs), c.id)
	default:
		fatal("internal: command kind %q", c.kind)
	}
}

func seq(l ...*cmd) *cmd {
	var flat []*cmd
	for _, c := range l {
		if c == nil || c.kind == "skip" {
			continue
		}
		if c.kind == "seq" {
			flat = append(flat, c.kids...)
		} else {
			flat = append(flat, c)
		}
	}
	switch len(flat) {
	case 0:
		return &cmd{kind: "skip"}
	case 1:
		return flat[0]
	}
	return &cmd{kind: "seq", kids: flat}
}

// ---------------------------------------------------------------- translation of one closure

type closureRow struct {
	fn       string // Recv.Func of the enclosing function
	idx      int    // index of the closure within it
	wrapper  string // transaction | UpdateChainState
	body     *cmd
	captured []string // variables of the enclosing function the closure assigns
	pos      token.Position
}

type clx struct {
	fd      *ast.FuncDecl
	lit     *ast.FuncLit
	where   string
	names   map[*ast.Object]string
	nlocal  int
	nid     int
	ntmp    int
	written map[string]bool // captured variables assigned somewhere in the closure
	inLoop  int
	funcs   map[string]*ast.FuncDecl // package-level functions of the directory
	imports map[string]bool          // names under which the file imports other packages
	txParam string                   // the closure's transaction parameter
}

func (x *clx) fail(n ast.Node, f string, a ...any) {
	fatal("%s (%s): "+f, append([]any{x.where, fset.Position(n.Pos())}, a...)...)
}

func (x *clx) fresh() int { x.nid++; return x.nid - 1 }

func (x *clx) tmp() string { x.ntmp++; return fmt.Sprintf("#%d", x.ntmp) }

// varName: the tracked variable an identifier denotes, "" if it is not a variable of the
// function (package-level function, constant, type, import, builtin, field name).
func (x *clx) varName(id *ast.Ident) string {
	if id.Name == "_" || id.Obj == nil || id.Obj.Kind != ast.Var {
		return ""
	}
	if n, ok := x.names[id.Obj]; ok {
		return n
	}
	p := id.Obj.Pos()
	var n string
	switch {
	case p >= x.lit.Pos() && p < x.lit.End():
		x.nlocal++
		n = fmt.Sprintf("%s'%d", id.Name, x.nlocal)
	case p >= x.fd.Pos() && p < x.fd.End():
		n = id.Name
	default:
		n = "global." + id.Name // package-level variable declared in the same file
	}
	x.names[id.Obj] = n
	return n
}

func (x *clx) isLocal(n string) bool { return strings.Contains(n, "'") || strings.HasPrefix(n, "#") }

type rw struct {
	rs, ws  []string
	hasCall bool
	condWs  []string // paths a callee may overwrite through an out-parameter (each one or not)
}

func (r *rw) read(n string) {
	if n != "" {
		r.rs = append(r.rs, n)
	}
}
func (r *rw) write(n string) {
	if n != "" {
		r.ws = append(r.ws, n)
	}
}

func uniq(l []string) []string {
	seen := map[string]bool{}
	var out []string
	for _, s := range l {
		if !seen[s] {
			seen[s] = true
			out = append(out, s)
		}
	}
	return out
}

// path: the longest prefix of an addressable expression that is a variable followed by field
// selections only (x, x.f, x.f.g); exact = the expression is exactly that path (no index,
// dereference, slice or call on the way).  "" if it is not rooted at a variable of the function.
func (x *clx) path(e ast.Expr) (string, bool) {
	switch t := e.(type) {
	case *ast.Ident:
		return x.varName(t), true
	case *ast.ParenExpr:
		return x.path(t.X)
	case *ast.SelectorExpr:
		p, exact := x.path(t.X)
		if p == "" {
			return "", false
		}
		if exact {
			return p + "." + t.Sel.Name, true
		}
		return p, false
	case *ast.IndexExpr:
		p, _ := x.path(t.X)
		return p, false
	case *ast.StarExpr:
		p, _ := x.path(t.X)
		return p, false
	case *ast.SliceExpr:
		p, _ := x.path(t.X)
		return p, false
	case *ast.TypeAssertExpr:
		p, _ := x.path(t.X)
		return p, false
	}
	return "", false
}

// methods that change their receiver: a call on a variable counts as an assignment of it
var mutatingMethods = map[string]bool{"Next": true, "Scan": true, "Close": true, "Reset": true, "Write": true, "WriteString": true,
	"WriteByte": true, "Add": true, "Store": true, "Set": true, "Delete": true, "Swap": true, "Lock": true, "Unlock": true}

// expr collects the variables an expression reads and (through &x, method calls on a variable)
// may assign.  scan = we are inside the arguments of a Scan call: &x is a pure overwrite.
func (x *clx) expr(e ast.Expr, r *rw, scan bool) {
	switch t := e.(type) {
	case nil:
	case *ast.Ident:
		r.read(x.varName(t))
	case *ast.BasicLit:
	case *ast.ParenExpr:
		x.expr(t.X, r, scan)
	case *ast.SelectorExpr:
		if p, exact := x.path(t); p != "" && exact {
			r.read(p)
			return
		}
		x.expr(t.X, r, scan)
	case *ast.StarExpr:
		x.expr(t.X, r, scan)
	case *ast.IndexExpr:
		x.expr(t.X, r, scan)
		x.expr(t.Index, r, scan)
	case *ast.IndexListExpr:
		x.expr(t.X, r, scan)
	case *ast.SliceExpr:
		x.expr(t.X, r, scan)
		x.expr(t.Low, r, scan)
		x.expr(t.High, r, scan)
		x.expr(t.Max, r, scan)
	case *ast.TypeAssertExpr:
		x.expr(t.X, r, scan)
	case *ast.BinaryExpr:
		x.expr(t.X, r, scan)
		x.expr(t.Y, r, scan)
	case *ast.KeyValueExpr:
		x.expr(t.Value, r, scan)
		if _, isId := t.Key.(*ast.Ident); !isId {
			x.expr(t.Key, r, scan)
		}
	case *ast.CompositeLit:
		for _, el := range t.Elts {
			x.expr(el, r, scan)
		}
	case *ast.UnaryExpr:
		if t.Op == token.AND {
			if _, isLit := t.X.(*ast.CompositeLit); isLit {
				x.expr(t.X, r, scan)
				return
			}
			n, exact := x.path(t.X)
			if n == "" {
				x.fail(t, "address of something that is not rooted at a variable of the function")
			}
			// &x / &x.f handed to Scan: overwritten; &x[i], &*x or any other callee: read and written
			if !(scan && exact) {
				r.read(n)
			}
			r.write(n)
			// index expressions inside the operand are read
			ast.Inspect(t.X, func(m ast.Node) bool {
				if ie, ok := m.(*ast.IndexExpr); ok {
					x.expr(ie.Index, r, false)
				}
				return true
			})
			return
		}
		x.expr(t.X, r, scan)
	case *ast.CallExpr:
		isConv := false
		switch f := t.Fun.(type) {
		case *ast.ParenExpr: // (*T)(&x)
			isConv = true
		case *ast.Ident:
			if f.Obj == nil || f.Obj.Kind != ast.Var {
				switch f.Name {
				case "len", "cap", "append", "make", "new", "min", "max", "copy", "delete", "clear", "string", "int", "int64", "uint64", "float64", "byte", "uint", "bool", "uint32", "int32":
					isConv = true // builtins and conversions: no database access, cannot fail
				}
			}
		}
		// pkg.F(args) of an imported package (fmt.Errorf, errors.Is, time.Now, zap.Error, ...) that
		// is not handed the transaction: Go computation, not a database call
		if s, ok := t.Fun.(*ast.SelectorExpr); ok && !isConv {
			if id, ok := s.X.(*ast.Ident); ok && id.Obj == nil && x.imports[id.Name] {
				ar := &rw{}
				for _, a := range t.Args {
					if _, isLit := a.(*ast.FuncLit); isLit {
						ar.read(x.txParam)
						continue
					}
					x.expr(a, ar, false)
				}
				usesTx := false
				for _, v := range ar.rs {
					if v == x.txParam {
						usesTx = true
					}
				}
				isConv = !usesTx
			}
		}
		if !isConv {
			r.hasCall = true
		}
		inScan := scan
		if s, ok := t.Fun.(*ast.SelectorExpr); ok {
			if s.Sel.Name == "Scan" {
				inScan = true
			}
			// a method call on a variable: the variable is read; if the method is one that
			// changes its receiver the variable is assigned too
			if n, _ := x.path(s.X); n != "" && mutatingMethods[s.Sel.Name] {
				r.read(n)
				r.write(n)
			}
			x.expr(s.X, r, scan)
		} else {
			x.expr(t.Fun, r, scan)
		}
		if id, ok := t.Fun.(*ast.Ident); ok && (id.Obj == nil || id.Obj.Kind != ast.Var) {
			switch id.Name {
			case "copy", "delete", "clear": // write into their first argument
				if len(t.Args) > 0 {
					if n, _ := x.path(t.Args[0]); n != "" {
						r.read(n)
						r.write(n)
					}
				}
			}
		}
		// json.Unmarshal(buf, &x) overwrites x like Scan does
		if s, ok := t.Fun.(*ast.SelectorExpr); ok && s.Sel.Name == "Unmarshal" {
			inScan = true
		}
		for i, a := range t.Args {
			// F(..., &x, ...) where the package-level F only assigns fields of that parameter:
			// each of those fields of x is overwritten or left alone
			if u, ok := a.(*ast.UnaryExpr); ok && u.Op == token.AND {
				if id, ok := t.Fun.(*ast.Ident); ok && id.Obj != nil && id.Obj.Kind == ast.Fun || ok && id.Obj == nil {
					if n, exact := x.path(u.X); n != "" && exact {
						if fields, ok := outParamFields(x.funcs[id.Name], i); ok {
							for _, f := range fields {
								r.condWs = append(r.condWs, n+f)
							}
							continue
						}
					}
				}
			}
			x.expr(a, r, inScan)
		}
	case *ast.FuncLit:
		// a nested function literal: it may run where it stands or later within the attempt;
		// what it reads is read here, and it must not assign variables from outside itself
		// other than through the statements we can see — translate its body in place
		inner := x.block(t.Body.List)
		var collect func(c *cmd)
		collect = func(c *cmd) {
			for _, v := range c.rs {
				if !x.isLocal(v) || true {
					r.read(v)
				}
			}
			for _, v := range c.ws {
				r.read(v) // conservatively: a deferred or repeated run may see its own earlier write
				r.write(v)
			}
			if c.kind == "call" {
				r.hasCall = true
			}
			for _, k := range c.kids {
				collect(k)
			}
		}
		collect(inner)
	case *ast.ArrayType, *ast.MapType, *ast.FuncType, *ast.InterfaceType, *ast.StructType, *ast.ChanType, *ast.Ellipsis:
	default:
		x.fail(e, "expression %T not understood", e)
	}
}

// lhs: the effect of assigning to an addressable expression
func (x *clx) lhs(e ast.Expr, r *rw, define bool) {
	switch t := e.(type) {
	case *ast.Ident:
		if t.Name == "_" {
			return
		}
		n := x.varName(t)
		if n == "" {
			x.fail(e, "assignment to %s, which is not a variable of the function", t.Name)
		}
		r.write(n)
	default:
		n, exact := x.path(e)
		if n == "" {
			x.fail(e, "assignment to an expression not rooted at a variable of the function")
		}
		// x.f = v overwrites the field x.f; x[i] = v, *x = v: the rest survives — read-modify-write
		if !exact {
			r.read(n)
		}
		r.write(n)
		ast.Inspect(e, func(m ast.Node) bool {
			if ie, ok := m.(*ast.IndexExpr); ok {
				x.expr(ie.Index, r, false)
			}
			return true
		})
	}
}

func (x *clx) mk(r *rw) *cmd {
	c := &cmd{ws: uniq(r.ws), rs: uniq(r.rs), id: x.fresh()}
	if r.hasCall {
		c.kind = "call"
	} else {
		c.kind = "assign"
	}
	for _, w := range c.ws {
		if !x.isLocal(w) {
			x.written[strings.SplitN(w, ".", 2)[0]] = true
		}
	}
	if len(c.ws) == 0 && !r.hasCall {
		return &cmd{kind: "skip"}
	}
	if len(r.condWs) == 0 {
		return c
	}
	out := []*cmd{c}
	for _, p := range uniq(r.condWs) {
		if !x.isLocal(p) {
			x.written[strings.SplitN(p, ".", 2)[0]] = true
		}
		as := &cmd{kind: "assign", ws: []string{p}, rs: c.rs, id: x.fresh()}
		out = append(out, &cmd{kind: "if", rs: c.rs, id: x.fresh(), kids: []*cmd{as, {kind: "skip"}}})
	}
	return seq(out...)
}

// outParamFields: if the i-th parameter p of fd is used in its body only as the root of the
// left-hand side of plain field assignments (p.f.g = e, e not mentioning p), the list of those
// field paths (".f.g").
func outParamFields(fd *ast.FuncDecl, i int) ([]string, bool) {
	if fd == nil || fd.Body == nil || fd.Recv != nil {
		return nil, false
	}
	var names []*ast.Ident
	for _, f := range fd.Type.Params.List {
		names = append(names, f.Names...)
	}
	if i >= len(names) {
		return nil, false
	}
	obj := names[i].Obj
	lhsUse := map[*ast.Ident]bool{}
	var fields []string
	ok := true
	ast.Inspect(fd.Body, func(n ast.Node) bool {
		as, isAs := n.(*ast.AssignStmt)
		if !isAs || as.Tok != token.ASSIGN {
			return true
		}
		for _, l := range as.Lhs {
			e, suffix := l, ""
			for {
				if se, isSel := e.(*ast.SelectorExpr); isSel {
					suffix = "." + se.Sel.Name + suffix
					e = se.X
					continue
				}
				break
			}
			if id, isId := e.(*ast.Ident); isId && id.Obj == obj && suffix != "" {
				lhsUse[id] = true
				fields = append(fields, suffix)
			}
		}
		return true
	})
	ast.Inspect(fd.Body, func(n ast.Node) bool {
		if id, isId := n.(*ast.Ident); isId && id.Obj == obj && !lhsUse[id] {
			ok = false
		}
		return true
	})
	if !ok || len(fields) == 0 {
		return nil, false
	}
	return uniq(fields), true
}

// cond: a condition; a call inside it is evaluated into a temporary first
func (x *clx) cond(e ast.Expr) (pre *cmd, rs []string) {
	if e == nil {
		return &cmd{kind: "skip"}, nil
	}
	r := &rw{}
	x.expr(e, r, false)
	if r.hasCall || len(r.ws) > 0 {
		t := x.tmp()
		r.write(t)
		return x.mk(r), []string{t}
	}
	return &cmd{kind: "skip"}, uniq(r.rs)
}

func (x *clx) block(l []ast.Stmt) *cmd {
	var out []*cmd
	for _, s := range l {
		out = append(out, x.stmt(s))
	}
	return seq(out...)
}

func (x *clx) stmt(s ast.Stmt) *cmd {
	switch t := s.(type) {
	case nil:
		return &cmd{kind: "skip"}
	case *ast.EmptyStmt:
		return &cmd{kind: "skip"}
	case *ast.BlockStmt:
		return x.block(t.List)
	case *ast.ExprStmt:
		r := &rw{}
		x.expr(t.X, r, false)
		if ce, ok := t.X.(*ast.CallExpr); ok {
			if id, ok := ce.Fun.(*ast.Ident); ok && id.Name == "panic" && id.Obj == nil {
				c := x.mk(r)
				return seq(c, &cmd{kind: "return", rs: nil, id: x.fresh(), note: "panic"})
			}
		}
		return x.mk(r)
	case *ast.DeclStmt:
		gd, ok := t.Decl.(*ast.GenDecl)
		if !ok {
			x.fail(s, "declaration not understood")
		}
		if gd.Tok != token.VAR {
			return &cmd{kind: "skip"} // const, type
		}
		var out []*cmd
		for _, sp := range gd.Specs {
			vs := sp.(*ast.ValueSpec)
			r := &rw{}
			for _, v := range vs.Values {
				x.expr(v, r, false)
			}
			for _, n := range vs.Names {
				x.lhs(n, r, true)
			}
			out = append(out, x.mk(r))
		}
		return seq(out...)
	case *ast.AssignStmt:
		r := &rw{}
		if isTruncation(t) {
			// x = x[:0] empties x whatever it held: an assignment that does not read
			x.lhs(t.Lhs[0], r, false)
			return x.mk(r)
		}
		for _, e := range t.Rhs {
			x.expr(e, r, false)
		}
		if t.Tok != token.ASSIGN && t.Tok != token.DEFINE {
			// x op= e
			x.expr(t.Lhs[0], r, false)
		}
		for _, e := range t.Lhs {
			x.lhs(e, r, t.Tok == token.DEFINE)
		}
		return x.mk(r)
	case *ast.IncDecStmt:
		r := &rw{}
		x.expr(t.X, r, false)
		x.lhs(t.X, r, false)
		return x.mk(r)
	case *ast.ReturnStmt:
		r := &rw{}
		for _, e := range t.Results {
			x.expr(e, r, false)
		}
		if len(t.Results) == 0 && x.lit.Type.Results != nil {
			// bare return: the closure's named results are read
			for _, f := range x.lit.Type.Results.List {
				for _, n := range f.Names {
					r.read(x.varName(n))
				}
			}
		}
		if r.hasCall || len(r.ws) > 0 {
			tv := x.tmp()
			r.write(tv)
			return seq(x.mk(r), &cmd{kind: "return", rs: []string{tv}, id: x.fresh()})
		}
		return &cmd{kind: "return", rs: uniq(r.rs), id: x.fresh()}
	case *ast.IfStmt:
		init := x.stmt(t.Init)
		pre, rs := x.cond(t.Cond)
		then := x.block(t.Body.List)
		els := &cmd{kind: "skip"}
		if t.Else != nil {
			els = x.stmt(t.Else)
		}
		return seq(init, pre, &cmd{kind: "if", rs: rs, id: x.fresh(), kids: []*cmd{then, els}})
	case *ast.ForStmt:
		init := x.stmt(t.Init)
		pre, rs := x.cond(t.Cond)
		x.inLoop++
		body := x.block(t.Body.List)
		x.inLoop--
		post := x.stmt(t.Post)
		if t.Post != nil && containsKind(body, "continue") {
			x.fail(s, "continue in a loop with a post statement")
		}
		if pre.kind == "skip" {
			return seq(init, &cmd{kind: "while", rs: rs, id: x.fresh(), kids: []*cmd{seq(body, post)}})
		}
		// the condition is a call (rows.Next()): evaluate it before the loop and at the end of
		// every iteration; `continue` would skip the re-evaluation
		if containsKind(body, "continue") {
			x.fail(s, "continue in a loop whose condition is a call")
		}
		pre2, _ := x.condAgain(t.Cond, rs[0])
		return seq(init, pre, &cmd{kind: "while", rs: rs, id: x.fresh(), kids: []*cmd{seq(body, post, pre2)}})
	case *ast.RangeStmt:
		// it := range-state(X); while more(it) { k, v, it = next(it); body }
		r := &rw{}
		x.expr(t.X, r, false)
		it := x.tmp()
		r.write(it)
		init := x.mk(r)
		nx := &rw{}
		nx.read(it)
		nx.write(it)
		if t.Key != nil {
			x.lhs(t.Key, nx, t.Tok == token.DEFINE)
		}
		if t.Value != nil {
			x.lhs(t.Value, nx, t.Tok == token.DEFINE)
		}
		next := x.mk(nx)
		x.inLoop++
		body := x.block(t.Body.List)
		x.inLoop--
		return seq(init, &cmd{kind: "while", rs: []string{it}, id: x.fresh(), kids: []*cmd{seq(next, body)}})
	case *ast.BranchStmt:
		if t.Label != nil {
			x.fail(s, "labelled %s", t.Tok)
		}
		switch t.Tok {
		case token.BREAK:
			if x.inLoop == 0 {
				x.fail(s, "break outside a loop (switch break not supported)")
			}
			return &cmd{kind: "break"}
		case token.CONTINUE:
			return &cmd{kind: "continue"}
		}
		x.fail(s, "%s not understood", t.Tok)
	case *ast.SwitchStmt:
		// switch init; tag { case a: A; case b: B; default: D } as a chain of ifs.  break inside a
		// switch would leave the switch, not the loop: refuse it.
		init := x.stmt(t.Init)
		tr := &rw{}
		x.expr(t.Tag, tr, false)
		if tr.hasCall || len(tr.ws) > 0 {
			x.fail(s, "switch on a call")
		}
		saved := x.inLoop
		x.inLoop = 0
		var deflt *cmd
		type arm struct {
			rs   []string
			body *cmd
		}
		var arms []arm
		for _, cl := range t.Body.List {
			cc := cl.(*ast.CaseClause)
			for _, st := range cc.Body {
				if b, ok := st.(*ast.BranchStmt); ok && b.Tok == token.FALLTHROUGH {
					x.fail(st, "fallthrough")
				}
			}
			body := x.block(cc.Body)
			if cc.List == nil {
				deflt = body
				continue
			}
			r := &rw{rs: append([]string(nil), tr.rs...)}
			for _, e := range cc.List {
				x.expr(e, r, false)
			}
			if r.hasCall || len(r.ws) > 0 {
				// case with a call (errors.Is(err, ...)): pure by convention of the code base
				r.ws = nil
			}
			arms = append(arms, arm{uniq(r.rs), body})
		}
		x.inLoop = saved
		out := deflt
		if out == nil {
			out = &cmd{kind: "skip"}
		}
		for i := len(arms) - 1; i >= 0; i-- {
			out = &cmd{kind: "if", rs: arms[i].rs, id: x.fresh(), kids: []*cmd{arms[i].body, out}}
		}
		return seq(init, out)
	case *ast.DeferStmt:
		// runs when the closure returns, within the same attempt: rows.Close(), stmt.Close().
		// It must not assign anything we track other than its own receiver.
		r := &rw{}
		x.expr(t.Call, r, false)
		for _, w := range r.ws {
			if !x.isLocal(w) {
				x.fail(s, "deferred call assigns %s", w)
			}
		}
		return &cmd{kind: "skip"}
	}
	x.fail(s, "statement %T not understood", s)
	return nil
}

// isTruncation: x = x[:0] (or x = x[0:0]) for a plain variable x
func isTruncation(t *ast.AssignStmt) bool {
	if t.Tok != token.ASSIGN || len(t.Lhs) != 1 || len(t.Rhs) != 1 {
		return false
	}
	l, ok := t.Lhs[0].(*ast.Ident)
	se, ok2 := t.Rhs[0].(*ast.SliceExpr)
	if !ok || !ok2 || se.Slice3 {
		return false
	}
	r, ok := se.X.(*ast.Ident)
	if !ok || r.Name != l.Name || r.Obj != l.Obj {
		return false
	}
	zero := func(e ast.Expr) bool {
		b, ok := e.(*ast.BasicLit)
		return ok && b.Kind == token.INT && b.Value == "0"
	}
	return (se.Low == nil || zero(se.Low)) && zero(se.High)
}

// condAgain: re-evaluation of a loop condition into the same temporary
func (x *clx) condAgain(e ast.Expr, tmp string) (*cmd, []string) {
	r := &rw{}
	x.expr(e, r, false)
	r.write(tmp)
	return x.mk(r), []string{tmp}
}

func containsKind(c *cmd, kind string) bool {
	if c.kind == kind {
		return true
	}
	if c.kind == "while" {
		return false // belongs to the inner loop
	}
	for _, k := range c.kids {
		if containsKind(k, kind) {
			return true
		}
	}
	return false
}

// ---------------------------------------------------------------- finding the closures

func scanClosures(repo string) []closureRow {
	var rows []closureRow
	type target struct {
		dir     string
		matches func(ce *ast.CallExpr) string
	}
	targets := []target{
		{"persist/sqlite", func(ce *ast.CallExpr) string {
			if s, ok := ce.Fun.(*ast.SelectorExpr); ok && s.Sel.Name == "transaction" {
				return "transaction"
			}
			return ""
		}},
		{"index", func(ce *ast.CallExpr) string {
			if s, ok := ce.Fun.(*ast.SelectorExpr); ok && s.Sel.Name == "UpdateChainState" && strings.HasSuffix(selString(s.X), ".store") {
				return "UpdateChainState"
			}
			return ""
		}},
	}
	for _, tg := range targets {
		files := parseDir(filepath.Join(repo, tg.dir))
		found := 0
		funcs := map[string]*ast.FuncDecl{}
		for _, f := range files {
			for _, d := range f.Decls {
				if fd, ok := d.(*ast.FuncDecl); ok && fd.Recv == nil {
					funcs[fd.Name.Name] = fd
				}
			}
		}
		for _, f := range files {
			for _, d := range f.Decls {
				fd, ok := d.(*ast.FuncDecl)
				if !ok || fd.Body == nil {
					continue
				}
				idx := 0
				name := fd.Name.Name
				if r := recvName(fd); r != "" {
					name = r + "." + name
				}
				ast.Inspect(fd.Body, func(n ast.Node) bool {
					ce, ok := n.(*ast.CallExpr)
					if !ok {
						return true
					}
					w := tg.matches(ce)
					if w == "" {
						return true
					}
					if len(ce.Args) != 1 {
						fatal("%s: %s call with %d arguments", name, w, len(ce.Args))
					}
					lit, ok := ce.Args[0].(*ast.FuncLit)
					if !ok {
						fatal("%s (%s): the argument of %s is not a function literal", name, fset.Position(ce.Pos()), w)
					}
					x := &clx{fd: fd, lit: lit, where: name, names: map[*ast.Object]string{}, written: map[string]bool{}, funcs: funcs, imports: importNames(f)}
					if lit.Type.Params != nil && len(lit.Type.Params.List) == 1 && len(lit.Type.Params.List[0].Names) == 1 {
						x.txParam = x.varName(lit.Type.Params.List[0].Names[0])
					} else {
						fatal("%s: a transaction closure with other than one named parameter", name)
					}
					// parameters and named results of the closure are set on entry
					entry := &rw{}
					for _, fl := range []*ast.FieldList{lit.Type.Params, lit.Type.Results} {
						if fl == nil {
							continue
						}
						for _, fld := range fl.List {
							for _, nm := range fld.Names {
								entry.write(x.varName(nm))
							}
						}
					}
					body := seq(x.mk(entry), x.block(lit.Body.List))
					expandPaths(body)
					var cap []string
					for v := range x.written {
						cap = append(cap, v)
					}
					sort.Strings(cap)
					rows = append(rows, closureRow{fn: name, idx: idx, wrapper: w, body: body, captured: cap, pos: fset.Position(lit.Pos())})
					idx++
					found++
					return false // nested transactions are refused by the shape scan
				})
			}
		}
		if found == 0 {
			fatal("no transaction closures found in %s", tg.dir)
		}
	}
	sort.SliceStable(rows, func(i, j int) bool {
		if rows[i].fn != rows[j].fn {
			return rows[i].fn < rows[j].fn
		}
		return rows[i].idx < rows[j].idx
	})
	return rows
}

func importNames(f *ast.File) map[string]bool {
	out := map[string]bool{}
	for _, im := range f.Imports {
		if im.Name != nil {
			out[im.Name.Name] = true
			continue
		}
		p, _ := strconv.Unquote(im.Path.Value)
		parts := strings.Split(p, "/")
		n := parts[len(parts)-1]
		if len(parts) > 1 && len(n) > 1 && n[0] == 'v' && strings.Trim(n[1:], "0123456789") == "" {
			n = parts[len(parts)-2] // module major version suffix
		}
		n = strings.TrimPrefix(n, "go-")
		out[n] = true
	}
	return out
}

// scanRetryLoop reads the retry loop of Store.transaction: `attempt := <first>`,
// `for ; attempt < maxRetryAttempts; attempt++`, the text that makes an error retryable, and
// the value of maxRetryAttempts in the default build.
func scanRetryLoop(repo string) (first, max int, text string) {
	files := parseDir(filepath.Join(repo, "persist/sqlite"))
	first, max = -1, -1
	for _, f := range files {
		for _, d := range f.Decls {
			switch d := d.(type) {
			case *ast.GenDecl:
				for _, sp := range d.Specs {
					vs, ok := sp.(*ast.ValueSpec)
					if !ok {
						continue
					}
					for i, n := range vs.Names {
						if n.Name == "maxRetryAttempts" && i < len(vs.Values) {
							if bl, ok := vs.Values[i].(*ast.BasicLit); ok && bl.Kind == token.INT {
								max, _ = strconv.Atoi(bl.Value)
							}
						}
					}
				}
			case *ast.FuncDecl:
				if d.Name.Name != "transaction" || recvName(d) != "Store" || d.Body == nil {
					continue
				}
				loops := 0
				ast.Inspect(d.Body, func(n ast.Node) bool {
					switch n := n.(type) {
					case *ast.AssignStmt:
						if len(n.Lhs) == 1 && len(n.Rhs) == 1 && n.Tok == token.DEFINE {
							if id, ok := n.Lhs[0].(*ast.Ident); ok && id.Name == "attempt" {
								if bl, ok := n.Rhs[0].(*ast.BasicLit); ok && bl.Kind == token.INT {
									first, _ = strconv.Atoi(bl.Value)
								}
							}
						}
					case *ast.ForStmt:
						loops++
						be, ok := n.Cond.(*ast.BinaryExpr)
						if !ok || be.Op != token.LSS || selString(be.X) != "attempt" || selString(be.Y) != "maxRetryAttempts" || n.Init != nil {
							fatal("Store.transaction: the retry loop is not `for ; attempt < maxRetryAttempts; attempt++`")
						}
						if inc, ok := n.Post.(*ast.IncDecStmt); !ok || inc.Tok != token.INC || selString(inc.X) != "attempt" {
							fatal("Store.transaction: the retry loop does not count attempts up by one")
						}
					case *ast.CallExpr:
						if s, ok := n.Fun.(*ast.SelectorExpr); ok && s.Sel.Name == "Contains" && len(n.Args) == 2 {
							if bl, ok := n.Args[1].(*ast.BasicLit); ok && bl.Kind == token.STRING {
								text, _ = strconv.Unquote(bl.Value)
							}
						}
					}
					return true
				})
				if loops != 1 {
					fatal("Store.transaction: %d loops", loops)
				}
				// the busy test may live in a helper of the package called from transaction
				// (e.g. isBusyError(err)): look one level down for the strings.Contains literal
				if text == "" {
					called := map[string]bool{}
					ast.Inspect(d.Body, func(n ast.Node) bool {
						if ce, ok := n.(*ast.CallExpr); ok {
							if id, ok := ce.Fun.(*ast.Ident); ok {
								called[id.Name] = true
							}
						}
						return true
					})
					for _, f2 := range files {
						for _, d2 := range f2.Decls {
							fd2, ok := d2.(*ast.FuncDecl)
							if !ok || fd2.Body == nil || fd2.Recv != nil || !called[fd2.Name.Name] {
								continue
							}
							ast.Inspect(fd2.Body, func(n ast.Node) bool {
								if ce, ok := n.(*ast.CallExpr); ok {
									if sel, ok := ce.Fun.(*ast.SelectorExpr); ok && sel.Sel.Name == "Contains" && len(ce.Args) == 2 {
										if bl, ok := ce.Args[1].(*ast.BasicLit); ok && bl.Kind == token.STRING {
											text, _ = strconv.Unquote(bl.Value)
										}
									}
								}
								return true
							})
						}
					}
				}
			}
		}
	}
	if first < 0 || max < 0 || text == "" {
		fatal("Store.transaction: retry loop not understood (first attempt %d, maxRetryAttempts %d, retry text %q)", first, max, text)
	}
	return
}

func emitClosures(rows []closureRow) string {
	var sb strings.Builder
	sb.WriteString("(* GENERATED by tools/txnscan (closures.go) from persist/sqlite and index/update.go: every\n   closure handed to Store.transaction, as a command of Retry.v.  Regenerated on every check\n   run; do not edit. *)\n")
	sb.WriteString("From Coq Require Import List String NArith.\nFrom HostdTxn Require Import Retry.\nImport ListNotations.\nLocal Open Scope string_scope.\nLocal Open Scope N_scope.\n\n")
	for i, r := range rows {
		fmt.Fprintf(&sb, "(* %s, closure %d, handed to %s *)\nDefinition closure_%d : cmd :=\n", r.fn, r.idx, r.wrapper, i)
		r.body.coq(&sb, "  ")
		sb.WriteString(".\n\n")
	}
	sb.WriteString("Definition closure_table : list closure_row := [\n")
	for i, r := range rows {
		q := make([]string, len(r.captured))
		for j, s := range r.captured {
			q[j] = strconv.Quote(s)
		}
		fmt.Fprintf(&sb, "  {| cl_func := %q; cl_index := %d; cl_wrapper := %q; cl_assigns := [%s]; cl_body := closure_%d |}", r.fn, r.idx, r.wrapper, strings.Join(q, "; "), i)
		if i+1 < len(rows) {
			sb.WriteString(";")
		}
		sb.WriteString("\n")
	}
	sb.WriteString("].\n")
	return sb.String()
}

func emitRetryLoop(repo string) string {
	first, max, text := scanRetryLoop(repo)
	return fmt.Sprintf("\n(* Store.transaction: `attempt := %d; for ; attempt < maxRetryAttempts; attempt++`, maxRetryAttempts = %d in\n   the default build; an error is retried when its text contains retry_text *)\nDefinition retry_first_attempt : nat := %d.\nDefinition max_retry_attempts : nat := %d.\nDefinition retry_text : string := %q.\n", first, max, first, max, text)
}

// ---------------------------------------------------------------- debugging aid: the closedness
// analysis of Retry.v (closed_closure) re-done here, only to print a readable summary with
// -closures-debug; the Coq computation on the emitted table is what counts.

type dset map[string]bool // nil = no normal completion (top)

func inter(a, b dset) dset {
	if a == nil {
		return b
	}
	if b == nil {
		return a
	}
	o := dset{}
	for k := range a {
		if b[k] {
			o[k] = true
		}
	}
	return o
}

func mayWrite(c *cmd, w map[string]bool) {
	for _, v := range c.ws {
		w[v] = true
	}
	for _, k := range c.kids {
		mayWrite(k, w)
	}
}

// da returns the definitely-assigned set after c and appends the offending reads to bad
func da(c *cmd, w map[string]bool, d dset, bad *[]string) dset {
	if d == nil {
		return nil
	}
	chk := func(rs []string) {
		for _, v := range rs {
			if w[v] && !d[v] {
				*bad = append(*bad, v)
			}
		}
	}
	cp := func() dset {
		o := dset{}
		for k := range d {
			o[k] = true
		}
		return o
	}
	switch c.kind {
	case "skip":
		return d
	case "assign", "call":
		chk(c.rs)
		o := cp()
		for _, v := range c.ws {
			o[v] = true
		}
		return o
	case "seq":
		for _, k := range c.kids {
			d = da(k, w, d, bad)
			if d == nil {
				return nil
			}
		}
		return d
	case "if":
		chk(c.rs)
		return inter(da(c.kids[0], w, cp(), bad), da(c.kids[1], w, cp(), bad))
	case "while":
		chk(c.rs)
		da(c.kids[0], w, cp(), bad)
		return d
	case "return":
		chk(c.rs)
		return nil
	case "break", "continue":
		return nil
	}
	return d
}

func debugClosures(rows []closureRow) {
	for _, r := range rows {
		w := map[string]bool{}
		mayWrite(r.body, w)
		var bad []string
		da(r.body, w, dset{}, &bad)
		bad = uniq(bad)
		st := "closed"
		if len(bad) > 0 {
			st = "OPEN: reads before (re)initialising " + strings.Join(bad, ", ")
		}
		fmt.Printf("%-45s #%d %-16s assigns %-40s %s\n", r.fn, r.idx, r.wrapper, "["+strings.Join(r.captured, " ")+"]", st)
	}
}

// ---------------------------------------------------------------- overlapping paths
//
// x and x.f name overlapping storage.  The Coq side treats variable names as independent cells,
// so the overlap is made explicit here: reading a path also reads every assigned path that
// overlaps it (x reads x.f; x.f reads x), assigning a path also assigns every assigned path it
// contains (x = v assigns x.f).

func isPrefixPath(a, b string) bool { return a == b || strings.HasPrefix(b, a+".") }

func expandPaths(body *cmd) {
	wp := map[string]bool{}
	mayWrite(body, wp)
	var all []string
	for v := range wp {
		all = append(all, v)
	}
	sort.Strings(all)
	var walk func(c *cmd)
	walk = func(c *cmd) {
		var rs, ws []string
		for _, r := range c.rs {
			rs = append(rs, r)
			for _, q := range all {
				if q != r && (isPrefixPath(q, r) || isPrefixPath(r, q)) {
					rs = append(rs, q)
				}
			}
		}
		for _, w := range c.ws {
			ws = append(ws, w)
			for _, q := range all {
				if q != w && isPrefixPath(w, q) {
					ws = append(ws, q)
				}
			}
		}
		c.rs, c.ws = uniq(rs), uniq(ws)
		for _, k := range c.kids {
			walk(k)
		}
	}
	walk(body)
}
