#!/usr/bin/env python3
"""stage delivered refactorings /tmp/refout/<R>/<n>/ into /verif/refactors/<R>-<n>/ and decide, from the files touched,
which quick checks each must stay quiet under (the properties whose anchored code lives in those files)."""
import json, os, glob, shutil, re
V = os.path.dirname(os.path.dirname(os.path.abspath(__file__)))
MAP = [
 (r'persist/sqlite/contracts\.go', 'C01 C03 C05 C06 C10 C13 C19'),
 (r'persist/sqlite/consensus\.go', 'C01 C05 C16 C17 C09'),
 (r'persist/sqlite/(sectors|volumes)\.go', 'C02 C08 C09'),
 (r'persist/sqlite/accounts\.go', 'C04 C11 C10'),
 (r'persist/sqlite/registry\.go', 'C20'),
 (r'persist/sqlite/(settings|metrics|webhooks)\.go', 'C18 C05'),
 (r'persist/sqlite/wallet\.go', 'C16 C09'),
 (r'persist/sqlite/(store|sql|init|migrations|recalc)\.go', 'C09 C18 C01'),
 (r'persist/sqlite/', 'C09'),
 (r'rhp/contracts\.go', 'C07 C14'),
 (r'rhp/v2/contracts\.go', 'C12 C07'),
 (r'rhp/v2/', 'C07 C14 C13 C15 C10'),
 (r'rhp/v3/contracts\.go', 'C12 C07'),
 (r'rhp/v3/pricetable\.go', 'C12'),
 (r'rhp/v3/(payments|accounts)\.go', 'C04 C07 C10 C15'),
 (r'rhp/v3/execute\.go|rhp/v3/mdm', 'C14 C07 C04 C02'),
 (r'rhp/v3/', 'C07 C14 C13 C15 C10 C04'),
 (r'host/contracts/update\.go', 'C01 C06 C17'),
 (r'host/contracts/lock\.go', 'C15'),
 (r'host/contracts/integrity\.go', 'C15'),
 (r'host/contracts/', 'C03 C13 C15 C06 C14'),
 (r'host/storage/', 'C02 C09 C08'),
 (r'host/accounts/', 'C04 C14'),
 (r'host/registry/', 'C20'),
 (r'host/settings/', 'C18 C16'),
 (r'index/', 'C09 C16 C01'),
 (r'webhooks/', 'C18'),
]
for d in sorted(glob.glob('/tmp/refout/R*/*/')):
    if not os.path.exists(d + 'patch.diff') or not os.path.exists(d + 'meta.json'):
        continue
    name = '%s-%s' % (d.split('/')[-3], d.split('/')[-2])
    t = os.path.join(V, 'refactors', name)
    if os.path.isdir(t):
        continue
    os.makedirs(t)
    shutil.copy(d + 'patch.diff', t)
    m = json.load(open(d + 'meta.json'))
    files = re.findall(r'^\+\+\+ b/(\S+)', open(d + 'patch.diff').read(), re.M)
    ids = []
    for f in files:
        for pat, s in MAP:
            if re.search(pat, f):
                for i in s.split():
                    if i not in ids:
                        ids.append(i)
                break
    m['files_changed'] = files
    m['checks'] = ids[:6]
    json.dump(m, open(os.path.join(t, 'meta.json'), 'w'), indent=1)
    print('staged', name, files, ids[:6])
