#!/usr/bin/env python3
"""mkmatrix.py — rewrite the seeded-change matrix of DESIGN.md (between the SEED-MATRIX markers) from seeded/*/result.json."""
import glob, json, os, re
V = os.path.dirname(os.path.dirname(os.path.abspath(__file__)))
rows = []
for d in sorted(glob.glob(os.path.join(V, "seeded", "*", ""))):
    name = os.path.basename(d.rstrip("/"))
    m = json.load(open(d + "meta.json"))
    files = ", ".join(m.get("files_changed", []))
    needs = " ".join(m.get("needs", "").split())
    if len(needs) > 150:
        needs = needs[:147] + "..."
    rp = d + "result.json"
    if m.get("retired"):
        rows.append("| %s | %s | %s | retired | %s |" % (name, files, needs, " ".join(m["retired"].split())[:220])); continue
    if not os.path.exists(rp):
        rows.append("| %s | %s | %s | not run | |" % (name, files, needs)); continue
    r = json.load(open(rp))
    for pid, x in r["results"].items():
        sigs = []
        for l in x.get("violation_lines", []):
            mm = re.search(r"replay=\S*/%s-(.*?)(-case\d+)?\.json" % pid, l)
            if mm: sigs.append(mm.group(1).replace("_", "-"))
        how = "**missed**" if not x["caught"] else ("failing input: " + ", ".join(sorted(set(sigs))[:3]) if x.get("with_failing_input") else "broken proof/correspondence (no-failing-input-found)")
        rows.append("| %s | %s | %s | %s %s | %s |" % (name, files, needs, pid, r.get("tier", "quick"), how))
table = "| change | files | what it needs to manifest | check | result |\n|---|---|---|---|---|\n" + "\n".join(rows)
p = os.path.join(V, "DESIGN.md"); s = open(p).read()
a, b = "<!-- SEED-MATRIX-BEGIN -->", "<!-- SEED-MATRIX-END -->"
if a in s:
    s = s[:s.index(a) + len(a)] + "\n" + table + "\n" + s[s.index(b):]
    open(p, "w").write(s)
print(len(rows), "rows")
