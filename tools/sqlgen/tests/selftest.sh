#!/bin/bash
# tools/sqlgen/tests/selftest.sh [--fast] [name ...] — teeth and quietness of the sqlgen tie for C01 / C08.
#
#   break-*.patch   a small breaking edit of one selection statement of persist/sqlite
#                   (expected: tools/check.py reports VIOLATION for the property in the file name)
#   same-*.patch    a behaviour-preserving restyling of one statement (expected: no alarm)
#
# Every patch is applied, one at a time, to a scratch worktree of /repo (/tmp/wt-t2; /repo itself is
# never touched) and checked with
#     VERIF_REPO=/tmp/wt-t2 VERIF_RUNTAG=-t2 VERIF_NO_EVIDENCE=1 python3 tools/check.py <C01|C08>
# --fast skips the harnesses: it runs only the translator on the patched tree and compiles the
#        generated file + GenEquiv.v + the props file in a private copy of the Coq group (expected:
#        break-* => translator error or a proof that no longer compiles, same-* => everything compiles).
# Exit status 0 iff every patch behaves as expected.
set -u
export GOPROXY=off GOSUMDB=off GOTOOLCHAIN=local GOFLAGS=
here=$(cd "$(dirname "$0")" && pwd)
verif=$(cd "$here/../../.." && pwd)
wt=/tmp/wt-t2
fast=0
if [ "${1:-}" = "--fast" ]; then fast=1; shift; fi
if [ $# -gt 0 ]; then names=("$@"); else names=(); for f in "$here"/break-*.patch "$here"/same-*.patch; do names+=("$(basename "$f" .patch)"); done; fi

git -C /repo worktree remove --force $wt 2>/dev/null
git -C /repo worktree add -q $wt HEAD || exit 2
trap 'git -C /repo worktree remove --force $wt 2>/dev/null; rm -rf /tmp/t2fast' EXIT

group_of() { case "$1" in *c01*) echo Contracts;; *c08*) echo Storage;; esac; }
prop_of() { case "$1" in *c01*) echo C01;; *c08*) echo C08;; esac; }
spec_of() { case "$1" in *c01*) echo c01.json;; *c08*) echo c08.json;; esac; }

fast_check() { # name -> prints "ok" or the first error line
  local g=$(group_of "$1") p=$(prop_of "$1") s=$(spec_of "$1")
  rm -rf /tmp/t2fast; mkdir -p /tmp/t2fast/coq
  cp -r "$verif/coq/Base" /tmp/t2fast/coq/Base
  mkdir -p /tmp/t2fast/coq/Actions; cp "$verif/coq/Actions/SqlSem.v" /tmp/t2fast/coq/Actions/
  mkdir -p /tmp/t2fast/coq/$g/gen
  (cd "$verif/coq/$g" && cp -P *.v *.vo *.glob _CoqProject /tmp/t2fast/coq/$g/ 2>/dev/null)
  local out
  out=$(VERIF_REPO=$wt VERIF_SQLGEN_ROOT=/tmp/t2fast python3 "$verif/tools/sqlgen/sqlgen.py" "$verif/tools/sqlgen/$s" 2>&1) || { echo "translator: $(echo "$out" | grep -m1 ERROR)"; return; }
  local gen=$(ls /tmp/t2fast/coq/$g/gen/)
  local extra=""
  if [ -f /tmp/t2fast/coq/$g/BatchSql.v ]; then extra="BatchSql.v"; fi   # depends on the generated file (work package W)
  for f in ${gen} GenEquiv.v $extra Props_$p.v; do
    out=$(cd /tmp/t2fast/coq/$g && timeout 600 coqc -Q ../Base HostdBase -Q . Hostd$g $f 2>&1) || { echo "coqc $f: $(echo "$out" | grep -m1 -A3 '^Error' | tr '\n' ' ' | cut -c1-200)"; return; }
  done
  echo ok
}

fail=0
for n in "${names[@]}"; do
  git -C $wt checkout -q -- . && git -C $wt apply "$here/$n.patch" || { echo "[$n] patch does not apply"; fail=1; continue; }
  p=$(prop_of "$n")
  if [ $fast = 1 ]; then
    r=$(fast_check "$n")
  else
    log=$(cd "$verif" && VERIF_REPO=$wt VERIF_RUNTAG=-t2 VERIF_NO_EVIDENCE=1 python3 tools/check.py $p 2>&1)
    if echo "$log" | grep -q "^VIOLATION"; then
      r=$(echo "$log" | grep "^VIOLATION" | sed "s#$verif/##g" | tr '\n' ' ' | cut -c1-400)
    else
      r=ok
    fi
    echo "$log" | grep "^check " | sed "s/^/[$n]   /"
  fi
  case "$n" in
    break-*) if [ "$r" = ok ]; then echo "[$n] MISSED: no alarm for a breaking edit"; fail=1; else echo "[$n] caught: $r"; fi;;
    same-*)  if [ "$r" = ok ]; then echo "[$n] quiet"; else echo "[$n] FALSE ALARM: $r"; fail=1; fi;;
  esac
done
exit $fail
