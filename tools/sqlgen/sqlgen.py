#!/usr/bin/env python3
"""tools/sqlgen/sqlgen.py — SQL WHERE -> Gallina translator for hostd's decision queries.

For every query function named in a spec (tools/sqlgen/<spec>.json) it
  1. finds the Go function in $VERIF_REPO's *current* source, the single tx.Query/QueryRow
     call in it, the SQL string literal and the Go expressions bound to the placeholders;
  2. asks the Go toolchain (a throw-away program compiled inside the module through
     `go run -overlay`, nothing is written to the repo) what database/sql binds for each
     expression: the driver value's type, and for constants the value itself;
  3. parses the statement — a SELECT, or a DELETE/UPDATE whose WHERE is `id IN (SELECT <t>.id FROM <t> ...)`
     (then the inner SELECT decides which rows of <t> are hit) — with FROM, INNER JOINs on a unique key,
     LEFT JOINs, [NOT] EXISTS (SELECT ... FROM t WHERE ...), WHERE with comparisons, AND/OR/NOT, BETWEEN,
     IS [NOT] NULL, IN, literals, placeholders; ORDER BY / LIMIT only where the spec declares what the
     caller does with them ("limit": "batch" = the caller repeats the statement until it hits no row,
     "pick-one" = the caller takes one row or reports that there is none) — and types it with SQLite's rules:
     column affinity from the declared type in init.sql, affinity conversion of the other
     operand, comparison by storage class (NULL < INTEGER < TEXT < BLOB);
  4. emits one Gallina definition per query over the row records of <Group>/Rows.v using the
     combinators of <Group>/SqlSem.v, plus the stored representation of the status constants
     and one accessor per column used.

Anything outside the supported fragment is a hard error (exit 2): the check run reports the
tie as broken instead of silently skipping a query.
"""
import json, os, re, subprocess, sys, tempfile

REPO = os.environ.get("VERIF_REPO", "/repo")
VERIF = os.path.dirname(os.path.dirname(os.path.dirname(os.path.abspath(__file__))))


class Unsupported(Exception):
    pass


def die(msg):
    sys.stderr.write("sqlgen: ERROR: %s\n" % msg)
    print("sqlgen: ERROR: %s" % msg)
    sys.exit(2)


# ----------------------------------------------------------------------------- Go source

def skip_go_literal(src, i):
    """src[i] starts a string/rune/raw literal or a comment: return index after it, else None"""
    c = src[i]
    if c == '`':
        j = src.index('`', i + 1)
        return j + 1
    if c in '"\'':
        j = i + 1
        while src[j] != c:
            j += 2 if src[j] == '\\' else 1
        return j + 1
    if src.startswith('//', i):
        j = src.find('\n', i)
        return len(src) if j < 0 else j
    if src.startswith('/*', i):
        return src.index('*/', i) + 2
    return None


def match_close(src, i, open_c, close_c):
    """src[i] == open_c: index of the matching close_c"""
    depth = 0
    while i < len(src):
        j = skip_go_literal(src, i)
        if j is not None:
            i = j
            continue
        if src[i] == open_c:
            depth += 1
        elif src[i] == close_c:
            depth -= 1
            if depth == 0:
                return i
        i += 1
    raise Unsupported("unbalanced %s%s" % (open_c, close_c))


def split_top(src, sep=','):
    out, depth, i, start = [], 0, 0, 0
    while i < len(src):
        j = skip_go_literal(src, i)
        if j is not None:
            i = j
            continue
        c = src[i]
        if c in '([{':
            depth += 1
        elif c in ')]}':
            depth -= 1
        elif c == sep and depth == 0:
            out.append(src[start:i].strip())
            start = i + 1
        i += 1
    last = src[start:].strip()
    if last:
        out.append(last)
    return out


def go_function(src, name):
    m = re.search(r'^func\s+(?:\([^)]*\)\s*)?%s\s*\(' % re.escape(name), src, flags=re.M)
    if not m:
        raise Unsupported("function %s not found" % name)
    p0 = m.end() - 1
    p1 = match_close(src, p0, '(', ')')
    params = src[p0 + 1:p1]
    b0 = src.index('{', p1)
    b1 = match_close(src, b0, '{', '}')
    return params, src[b0 + 1:b1]


def go_params(params):
    """'tx *txn, a, b uint64' -> [(name, type)]"""
    out, pending = [], []
    for part in split_top(params):
        toks = part.split(None, 1)
        if len(toks) == 1:
            pending.append(toks[0])
        else:
            for n in pending:
                out.append((n, toks[1].strip()))
            pending = []
            out.append((toks[0], toks[1].strip()))
    if pending:
        raise Unsupported("cannot parse parameter list %r" % params)
    return out


def go_imports(src):
    imps = {}
    m = re.search(r'^import\s*\((.*?)^\)', src, flags=re.M | re.S)
    lines = m.group(1).splitlines() if m else []
    lines += re.findall(r'^import\s+(.*)$', src, flags=re.M)
    for line in lines:
        line = line.strip()
        mm = re.match(r'(?:(\w+)\s+)?"([^"]+)"', line)
        if mm:
            path = mm.group(2)
            alias = mm.group(1)
            base = path.rsplit('/', 1)[-1]
            if re.fullmatch(r'v\d+', base):
                base = path.rsplit('/', 2)[-2]
            imps[alias or base] = (alias, path)
    return imps


def query_call(body, fn, which=None):
    calls = [m for m in re.finditer(r'\btx\.(Query|QueryRow|Exec)\s*\(', body)]
    if which is None:
        if len(calls) != 1:
            raise Unsupported("%s: expected exactly one tx.Query/QueryRow call, found %d" % (fn, len(calls)))
        which = 0
    elif which >= len(calls):
        raise Unsupported("%s: expected at least %d tx.Query/QueryRow/Exec calls, found %d" % (fn, which + 1, len(calls)))
    p0 = calls[which].end() - 1
    p1 = match_close(body, p0, '(', ')')
    args = split_top(body[p0 + 1:p1])
    if not args:
        raise Unsupported("%s: query call without arguments" % fn)
    q = args[0]
    if q.startswith('`'):
        sql = q[1:-1]
    elif q.startswith('"'):
        sql = json.loads(q)
    elif re.fullmatch(r'\w+', q):
        m = re.search(r'\b(?:const\s+%s\s*=|%s\s*:=)\s*`([^`]*)`' % (q, q), body)
        if not m:
            raise Unsupported("%s: query text %s is not a string literal constant" % (fn, q))
        sql = m.group(1)
    else:
        raise Unsupported("%s: query text is a computed expression: %s" % (fn, q[:60]))
    return sql, args[1:]


def probe_go(items, consts, imports, inpkg=None):
    """items: [(key, param decls [(name,type)], expr)], consts: [(key, expr)].
    Returns {key: dict(gotype, kind, drv, val, err)} computed by the real toolchain.
    inpkg (a package directory of the repository, e.g. persist/sqlite): evaluate the expressions
    inside that package, for bound expressions that use its unexported names."""
    if inpkg:
        return probe_go_inpkg(items, consts, imports, inpkg)
    used = set()
    text = " ".join(e for _, _, e in items) + " " + " ".join(t for _, ps, _ in items for _, t in ps) \
        + " " + " ".join(e for _, e in consts)
    lines = ['package main', '', 'import (', '\t"database/sql/driver"', '\t"fmt"', '\t"reflect"']
    for name, (alias, path) in sorted(imports.items()):
        if re.search(r'\b%s\.' % re.escape(name), text):
            lines.append('\t%s"%s"' % ((alias + ' ') if alias else '', path))
            used.add(name)
    lines += [')', '',
              'func emit(key string, v any) {',
              '\tt := reflect.TypeOf(v)',
              '\tcv, err := driver.DefaultParameterConverter.ConvertValue(v)',
              '\tes := ""',
              '\tif err != nil { es = err.Error() }',
              '\tfmt.Printf("%s\\t%s\\t%s\\t%T\\t%q\\t%q\\n", key, t.String(), t.Kind().String(), cv, fmt.Sprint(cv), es)',
              '}', '']
    for n, (key, params, expr) in enumerate(items):
        lines.append('func probe%d() {' % n)
        for pn, pt in params:
            lines.append('\tvar %s %s' % (pn, pt))
            lines.append('\t_ = %s' % pn)
        lines.append('\temit(%s, %s)' % (json.dumps(key), expr))
        lines.append('}')
    lines.append('func main() {')
    for n in range(len(items)):
        lines.append('\tprobe%d()' % n)
    for key, expr in consts:
        lines.append('\temit(%s, %s)' % (json.dumps(key), expr))
    lines.append('}')
    with tempfile.TemporaryDirectory() as td:
        mainf = os.path.join(td, "main.go")
        open(mainf, "w").write("\n".join(lines) + "\n")
        ov = os.path.join(td, "overlay.json")
        json.dump({"Replace": {os.path.join(REPO, "internal", "verifsqlgenprobe", "main.go"): mainf}}, open(ov, "w"))
        env = dict(os.environ, GOPROXY="off", GOSUMDB="off", GOTOOLCHAIN="local", GOFLAGS="")
        p = subprocess.run(["go", "run", "-overlay", ov, "./internal/verifsqlgenprobe"], cwd=REPO, env=env,
                           stdout=subprocess.PIPE, stderr=subprocess.PIPE, text=True, timeout=900)
        if p.returncode != 0:
            raise Unsupported("the Go toolchain rejects the bound expressions:\n%s\n--- program:\n%s" % (p.stderr[-3000:], "\n".join(lines)))
    res = {}
    for line in p.stdout.splitlines():
        key, gotype, kind, drv, val, err = line.split("\t")
        res[key] = dict(gotype=gotype, kind=kind, drv=drv, val=json.loads(val), err=json.loads(err))
    return res


def probe_go_inpkg(items, consts, imports, inpkg):
    """the same probe, compiled as an extra (overlay-only) file of the package that holds the queries,
    called from a throw-away main package"""
    pkgdir = os.path.join(REPO, inpkg)
    pkgname = None
    for f in sorted(os.listdir(pkgdir)):
        if f.endswith(".go") and not f.endswith("_test.go"):
            m = re.search(r'^package\s+(\w+)', open(os.path.join(pkgdir, f)).read(), flags=re.M)
            if m:
                pkgname = m.group(1)
                break
    if not pkgname:
        raise Unsupported("no Go package in %s" % inpkg)
    m = re.search(r'^module\s+(\S+)', open(os.path.join(REPO, "go.mod")).read(), flags=re.M)
    if not m:
        raise Unsupported("go.mod without a module line")
    modpath = m.group(1)
    text = " ".join(e for _, _, e in items) + " " + " ".join(t for _, ps, _ in items for _, t in ps) \
        + " " + " ".join(e for _, e in consts)
    lines = ['package %s' % pkgname, '', 'import (', '\tverifdriver "database/sql/driver"', '\tveriffmt "fmt"',
             '\tverifreflect "reflect"']
    for name, (alias, path) in sorted(imports.items()):
        if re.search(r'\b%s\.' % re.escape(name), text):
            lines.append('\t%s"%s"' % ((alias + ' ') if alias else '', path))
    lines += [')', '',
              'func verifSqlgenEmit(key string, v any) {',
              '\tt := verifreflect.TypeOf(v)',
              '\tcv, err := verifdriver.DefaultParameterConverter.ConvertValue(v)',
              '\tes := ""',
              '\tif err != nil { es = err.Error() }',
              '\tveriffmt.Printf("%s\\t%s\\t%s\\t%T\\t%q\\t%q\\n", key, t.String(), t.Kind().String(), cv, veriffmt.Sprint(cv), es)',
              '}', '']
    for n, (key, params, expr) in enumerate(items):
        lines.append('func verifSqlgenProbe%d() {' % n)
        for pn, pt in params:
            lines.append('\tvar %s %s' % (pn, pt))
            lines.append('\t_ = %s' % pn)
        lines.append('\tverifSqlgenEmit(%s, %s)' % (json.dumps(key), expr))
        lines.append('}')
    lines.append('// VerifSqlgenProbe exists only in the translator\'s overlay build')
    lines.append('func VerifSqlgenProbe() {')
    for n in range(len(items)):
        lines.append('\tverifSqlgenProbe%d()' % n)
    for key, expr in consts:
        lines.append('\tverifSqlgenEmit(%s, %s)' % (json.dumps(key), expr))
    lines.append('}')
    mainsrc = 'package main\n\nimport probe "%s/%s"\n\nfunc main() { probe.VerifSqlgenProbe() }\n' % (modpath, inpkg)
    with tempfile.TemporaryDirectory() as td:
        pf = os.path.join(td, "probe.go")
        open(pf, "w").write("\n".join(lines) + "\n")
        mainf = os.path.join(td, "main.go")
        open(mainf, "w").write(mainsrc)
        ov = os.path.join(td, "overlay.json")
        json.dump({"Replace": {os.path.join(pkgdir, "verif_sqlgen_probe.go"): pf,
                               os.path.join(REPO, "internal", "verifsqlgenprobe", "main.go"): mainf}}, open(ov, "w"))
        env = dict(os.environ, GOPROXY="off", GOSUMDB="off", GOTOOLCHAIN="local", GOFLAGS="")
        p = subprocess.run(["go", "run", "-overlay", ov, "./internal/verifsqlgenprobe"], cwd=REPO, env=env,
                           stdout=subprocess.PIPE, stderr=subprocess.PIPE, text=True, timeout=900)
        if p.returncode != 0:
            raise Unsupported("the Go toolchain rejects the bound expressions:\n%s\n--- program:\n%s" % (p.stderr[-3000:], "\n".join(lines)))
    res = {}
    for line in p.stdout.splitlines():
        key, gotype, kind, drv, val, err = line.split("\t")
        res[key] = dict(gotype=gotype, kind=kind, drv=drv, val=json.loads(val), err=json.loads(err))
    return res


# ----------------------------------------------------------------------------- schema

def affinity(decl):
    d = decl.upper()
    if "INT" in d:
        return "INTEGER"
    if "CHAR" in d or "CLOB" in d or "TEXT" in d:
        return "TEXT"
    if "BLOB" in d or d == "":
        return "BLOB"
    if "REAL" in d or "FLOA" in d or "DOUB" in d:
        return "REAL"
    return "NUMERIC"


def parse_schema(sql):
    tables = {}
    for m in re.finditer(r'CREATE TABLE\s+(\w+)\s*\((.*?)^\);', sql, flags=re.S | re.M):
        cols = {}
        body = re.sub(r'--[^\n]*', '', m.group(2))
        for part in split_top(body):
            part = " ".join(part.split())
            toks = part.split()
            if not toks or toks[0].upper() in ("PRIMARY", "UNIQUE", "FOREIGN", "CHECK", "CONSTRAINT"):
                continue
            name = toks[0]
            decl = toks[1] if len(toks) > 1 and toks[1].upper() not in ("PRIMARY", "UNIQUE", "NOT", "REFERENCES", "DEFAULT") else ""
            up = part.upper()
            cols[name] = dict(decl=decl, aff=affinity(decl), notnull=("NOT NULL" in up) or ("PRIMARY KEY" in up),
                              unique=("PRIMARY KEY" in up) or (" UNIQUE" in up), pk="PRIMARY KEY" in up)
        tables[m.group(1)] = cols
    return tables


# ----------------------------------------------------------------------------- SQL parser

TOK = re.compile(r"""\s*(?:
    (?P<num>\d+)
  | (?P<str>'(?:[^']|'')*')
  | (?P<par>\?\d*|[$:@]\w+)
  | (?P<id>[A-Za-z_]\w*)
  | (?P<op><>|!=|<=|>=|==|=|<|>|\(|\)|,|\.|;|\*)
)""", re.X)

KEYWORDS = {"SELECT", "FROM", "WHERE", "AND", "OR", "NOT", "IS", "NULL", "BETWEEN", "IN", "INNER", "LEFT", "CROSS", "JOIN",
            "ON", "AS", "TRUE", "FALSE", "ORDER", "BY", "LIMIT", "OFFSET", "GROUP", "HAVING", "ASC", "DESC", "OUTER", "LIKE",
            "CASE", "EXISTS", "UNION", "DISTINCT", "DELETE", "UPDATE", "SET", "RETURNING", "INDEXED", "RIGHT", "FULL",
            "NATURAL", "USING", "EXCEPT", "INTERSECT"}


def tokenize(sql):
    out, i = [], 0
    sql = re.sub(r'--[^\n]*', '', sql)
    while i < len(sql):
        if sql[i:].strip() == "":
            break
        m = TOK.match(sql, i)
        if not m:
            raise Unsupported("cannot tokenize SQL at: %r" % sql[i:i + 30])
        i = m.end()
        for k in ("num", "str", "par", "id", "op"):
            if m.group(k) is not None:
                v = m.group(k)
                if k == "id" and v.upper() in KEYWORDS:
                    out.append(("kw", v.upper()))
                else:
                    out.append((k, v))
                break
    return out


class Parser:
    def __init__(self, toks):
        self.t, self.i = toks, 0
        self.nparams = 0
        self.named = {}

    def peek(self, k=0):
        return self.t[self.i + k] if self.i + k < len(self.t) else ("eof", "")

    def eat(self, kind=None, val=None):
        tk = self.peek()
        if (kind and tk[0] != kind) or (val and tk[1] != val):
            raise Unsupported("SQL: expected %s %s, found %r" % (kind or "", val or "", tk))
        self.i += 1
        return tk

    def at(self, kind, val=None):
        tk = self.peek()
        return tk[0] == kind and (val is None or tk[1] == val)

    # SELECT <anything without FROM at depth 0> FROM t [a] {INNER JOIN t a ON (x = y)} [WHERE e] [;]
    # statement :=  SELECT ...
    #            |  DELETE FROM t WHERE id IN ( SELECT ... ) [RETURNING ...]
    #            |  UPDATE t SET col = v {, col = v} WHERE id IN ( SELECT ... ) [RETURNING ...]
    def statement(self):
        if self.at("kw", "SELECT"):
            sel = self.select_core(sub=False)
            st = dict(kind="select", select=sel)
        elif self.at("kw", "DELETE") or self.at("kw", "UPDATE"):
            kind = self.eat()[1].lower()
            if kind == "delete":
                self.eat("kw", "FROM")
            target = self.table_ref()
            sets = []
            if kind == "update":
                self.eat("kw", "SET")
                while True:
                    col = self.eat("id")[1]
                    self.eat("op", "=")
                    sets.append((col, self.primary()))
                    if self.at("op", ","):
                        self.eat()
                        continue
                    break
            if not self.at("kw", "WHERE"):
                raise Unsupported("SQL: %s without WHERE hits every row of %s" % (kind.upper(), target[0]))
            self.eat("kw", "WHERE")
            key = self.primary()
            if not (self.at("kw", "IN") and self.peek(1) == ("op", "(") and self.peek(2) == ("kw", "SELECT")):
                raise Unsupported("SQL: the WHERE of the %s is not `id IN (SELECT ...)`" % kind.upper())
            self.eat("kw", "IN")
            self.eat("op", "(")
            sel = self.select_core(sub=True)
            self.eat("op", ")")
            if self.at("kw", "AND") or self.at("kw", "OR"):
                raise Unsupported("SQL: the WHERE of the %s has more than `id IN (SELECT ...)`" % kind.upper())
            if self.at("kw", "RETURNING"):
                self.eat()
                while not (self.at("eof") or self.at("op", ";")):
                    if self.eat()[0] == "par":
                        raise Unsupported("SQL: placeholder in the RETURNING clause")
            st = dict(kind=kind, target=target, key=key, sets=sets, select=sel)
        else:
            raise Unsupported("SQL: statement starts with %r" % (self.peek(),))
        if self.at("op", ";"):
            self.eat()
        if not self.at("eof"):
            raise Unsupported("SQL: trailing clause %r is outside the supported fragment (it could change which rows are selected)" % (self.peek(),))
        return st

    def select_core(self, sub):
        """SELECT cols FROM t [a] {[INNER] JOIN t a ON e | LEFT [OUTER] JOIN t a ON e} [WHERE e] [ORDER BY ...] [LIMIT n];
        a sub-select ends at the closing parenthesis.  ORDER BY / LIMIT are returned, never dropped here."""
        self.eat("kw", "SELECT")
        if self.at("kw", "DISTINCT"):
            self.eat()   # removes duplicates from the result, not rows from the selection
        depth = 0
        cols = []
        while not (depth == 0 and self.at("kw", "FROM")):
            tk = self.eat()
            if tk[0] == "eof":
                raise Unsupported("SQL: SELECT without FROM")
            if tk[0] == "par":
                raise Unsupported("SQL: placeholder in the result columns")
            if tk == ("op", "("):
                depth += 1
            elif tk == ("op", ")"):
                depth -= 1
                if depth < 0:
                    raise Unsupported("SQL: SELECT without FROM")
            cols.append(tk)
        self.eat("kw", "FROM")
        root = self.table_ref()
        joins = []
        while self.peek()[0] == "kw" and self.peek()[1] in ("INNER", "JOIN", "LEFT", "CROSS", "RIGHT", "FULL", "NATURAL"):
            kind = "inner"
            if self.at("kw", "LEFT"):
                self.eat()
                if self.at("kw", "OUTER"):
                    self.eat()
                kind = "left"
            elif self.at("kw", "INNER"):
                self.eat()
            elif not self.at("kw", "JOIN"):
                raise Unsupported("SQL: %s JOIN is outside the supported fragment" % self.peek()[1])
            self.eat("kw", "JOIN")
            tr = self.table_ref()
            self.eat("kw", "ON")
            on = self.expr()
            joins.append((kind, tr, on))
        if self.at("op", ","):
            raise Unsupported("SQL: comma join is outside the supported fragment")
        where = None
        if self.at("kw", "WHERE"):
            self.eat()
            where = self.expr()
        order_by, limit = False, None
        order_toks = []
        if self.at("kw", "ORDER"):
            self.eat()
            self.eat("kw", "BY")
            order_by = True
            depth = 0
            while not (self.at("eof") or (depth == 0 and (self.at("kw", "LIMIT") or self.at("op", ";") or self.at("op", ")")))):
                tk = self.eat()
                order_toks.append(tk)
                if tk[0] == "par":
                    raise Unsupported("SQL: placeholder in ORDER BY")
                if tk == ("op", "("):
                    depth += 1
                elif tk == ("op", ")"):
                    depth -= 1
        if self.at("kw", "LIMIT"):
            self.eat()
            limit = self.primary()
            if self.at("kw", "OFFSET") or self.at("op", ","):
                raise Unsupported("SQL: LIMIT with an offset is outside the supported fragment")
        if sub and not self.at("op", ")"):
            raise Unsupported("SQL: trailing clause %r in a sub-select is outside the supported fragment" % (self.peek(),))
        return dict(cols=cols, root=root, joins=joins, where=where, order_by=order_by, limit=limit, order_toks=order_toks)

    def table_ref(self):
        name = self.eat("id")[1]
        alias = name
        if self.at("kw", "AS"):
            self.eat()
            alias = self.eat("id")[1]
        elif self.at("id"):
            alias = self.eat("id")[1]
        # index hints choose a query plan, never the rows (SQLite refuses the statement when the hinted
        # index cannot serve it)
        if self.at("kw", "INDEXED"):
            self.eat()
            self.eat("kw", "BY")
            self.eat("id")
        elif self.at("kw", "NOT") and self.peek(1) == ("kw", "INDEXED"):
            self.eat()
            self.eat()
        return name, alias

    def expr(self):
        e = self.and_()
        while self.at("kw", "OR"):
            self.eat()
            e = ("or", e, self.and_())
        return e

    def and_(self):
        e = self.not_()
        while self.at("kw", "AND"):
            self.eat()
            e = ("and", e, self.not_())
        return e

    def not_(self):
        if self.at("kw", "NOT"):
            self.eat()
            return ("not", self.not_())
        if self.at("kw", "EXISTS"):
            self.eat()
            self.eat("op", "(")
            sel = self.select_core(sub=True)
            self.eat("op", ")")
            return ("exists", sel)
        return self.cmp()

    def cmp(self):
        a = self.primary()
        if self.at("op") and self.peek()[1] in ("=", "==", "<>", "!=", "<", "<=", ">", ">="):
            op = self.eat()[1]
            b = self.primary()
            return ("cmp", {"=": "Ceq", "==": "Ceq", "<>": "Cne", "!=": "Cne", "<": "Clt", "<=": "Cle", ">": "Cgt", ">=": "Cge"}[op], a, b)
        if self.at("kw", "IS"):
            self.eat()
            neg = False
            if self.at("kw", "NOT"):
                self.eat()
                neg = True
            self.eat("kw", "NULL")
            return ("notnull" if neg else "isnull", a)
        neg = False
        if self.at("kw", "NOT") and self.peek(1) in (("kw", "BETWEEN"), ("kw", "IN")):
            self.eat()
            neg = True
        if self.at("kw", "BETWEEN"):
            self.eat()
            lo = self.primary()
            self.eat("kw", "AND")
            hi = self.primary()
            e = ("between", a, lo, hi)
            return ("not", e) if neg else e
        if self.at("kw", "IN"):
            self.eat()
            self.eat("op", "(")
            items = []
            if not self.at("op", ")"):
                items.append(self.primary())
                while self.at("op", ","):
                    self.eat()
                    items.append(self.primary())
            self.eat("op", ")")
            e = ("in", a, items)
            return ("not", e) if neg else e
        return a

    def primary(self):
        tk = self.peek()
        if tk == ("op", "("):
            self.eat()
            e = self.expr()
            self.eat("op", ")")
            return e
        if tk[0] == "num":
            self.eat()
            return ("int", int(tk[1]))
        if tk[0] == "str":
            self.eat()
            return ("text", tk[1][1:-1].replace("''", "'"))
        if tk[0] == "kw" and tk[1] in ("TRUE", "FALSE"):
            self.eat()
            return ("int", 1 if tk[1] == "TRUE" else 0)
        if tk[0] == "kw" and tk[1] == "NULL":
            self.eat()
            return ("null",)
        if tk[0] == "par":
            self.eat()
            p = tk[1]
            if p == "?":
                self.nparams += 1
                return ("param", self.nparams)
            if p[0] == "?":
                n = int(p[1:])
                self.nparams = max(self.nparams, n)
                return ("param", n)
            # $AAA / :AAA / @AAA are *named* parameters: numbered by first appearance
            if p not in self.named:
                self.nparams += 1
                self.named[p] = self.nparams
            return ("param", self.named[p])
        if tk[0] == "id":
            self.eat()
            if self.at("op", "."):
                self.eat()
                col = self.eat("id")[1]
                return ("col", tk[1], col)
            if self.at("op", "("):
                raise Unsupported("SQL: function call %s(...) is outside the supported fragment" % tk[1])
            return ("col", None, tk[1])
        raise Unsupported("SQL: unexpected token %r" % (tk,))


# ----------------------------------------------------------------------------- typing + emission

def coq_string(s):
    return '"%s"%%string' % s.replace('"', '""')


SIGNED_KINDS = ("int", "int64", "int32", "int16", "int8")


class Emitter:
    """Types an expression with SQLite's comparison rules and renders Gallina."""

    def __init__(self, spec, schema, fn, root, joins, args, arginfo, params):
        self.spec, self.schema, self.fn = spec, schema, fn
        self.scopes = {}          # alias -> (table, coq row variable, optional: the NULL row of a LEFT JOIN)
        self.args, self.arginfo, self.goparams = args, arginfo, params
        self.cols_used = set()    # (table, column)
        self.sym = []             # symbolic parameters of the definition: (coq name, go expr, kind)
        self.root = root
        self.tables = []          # whole tables the definition ranges over (LEFT JOIN / EXISTS): table names
        self.nexists = 0

    def table_param(self, table):
        if table not in self.spec["tables"]:
            raise Unsupported("%s: table %s is not modelled" % (self.fn, table))
        if table not in self.tables:
            self.tables.append(table)
        return "T_%s" % table

    def table_of(self, alias, col):
        if alias is not None:
            if alias not in self.scopes:
                raise Unsupported("%s: unknown table alias %s" % (self.fn, alias))
            return alias
        hits = [a for a, sc in self.scopes.items() if col in self.schema[sc[0]]]
        if len(hits) != 1:
            raise Unsupported("%s: column %s is ambiguous or unknown" % (self.fn, col))
        return hits[0]

    # operand description: dict(kind=col|int|text|null|symint, aff=..., coq=..., nullable=bool)
    def operand(self, e):
        k = e[0]
        if k == "col":
            a = self.table_of(e[1], e[2])
            table, var, optional = self.scopes[a]
            if e[2] not in self.schema[table]:
                raise Unsupported("%s: table %s has no column %s" % (self.fn, table, e[2]))
            c = self.schema[table][e[2]]
            self.cols_used.add((table, e[2]))
            if optional:
                return dict(kind="col", aff=c["aff"], coq="(sql_ocol col_%s_%s %s)" % (table, e[2], var), table=table, col=e[2])
            return dict(kind="col", aff=c["aff"], coq="(col_%s_%s %s)" % (table, e[2], var), table=table, col=e[2])
        if k == "int":
            return dict(kind="int", aff=None, val=e[1], coq="(Some (%d)%%Z)" % e[1])
        if k == "text":
            return dict(kind="text", aff=None, val=e[1], coq="(Some %s)" % coq_string(e[1]))
        if k == "null":
            return dict(kind="null", aff=None, coq="None")
        if k == "param":
            n = e[1]
            if n > len(self.args):
                raise Unsupported("%s: placeholder %d has no bound argument (%d given) — database/sql rejects this call at run time" % (self.fn, n, len(self.args)))
            info = self.arginfo[n - 1]
            expr = self.args[n - 1]
            if info["err"]:
                raise Unsupported("%s: argument %s cannot be bound: %s" % (self.fn, expr, info["err"]))
            symbolic = any(re.search(r'\b%s\b' % re.escape(pn), expr) for pn, _ in self.goparams)
            if not symbolic:
                if info["drv"] == "int64":
                    return dict(kind="int", aff=None, val=int(info["val"]), coq="(Some (%d)%%Z)" % int(info["val"]), go=expr)
                if info["drv"] == "bool":
                    v = 1 if info["val"] == "true" else 0   # go-sqlite3 binds a bool as integer 1/0
                    return dict(kind="int", aff=None, val=v, coq="(Some (%d)%%Z)" % v, go=expr)
                if info["drv"] == "string":
                    return dict(kind="text", aff=None, val=info["val"], coq="(Some %s)" % coq_string(info["val"]), go=expr)
                raise Unsupported("%s: constant argument %s binds as %s, outside the supported fragment" % (self.fn, expr, info["drv"]))
            if info["drv"] != "int64" or info["kind"] not in ("uint64", "uint32", "uint", "int", "int64", "uint8", "uint16", "int32"):
                raise Unsupported("%s: argument %s (%s) binds as %s, outside the supported fragment" % (self.fn, expr, info["gotype"], info["drv"]))
            name = re.sub(r'\W+', '_', expr).strip('_')
            if (name, expr, info["kind"]) not in self.sym:
                self.sym.append((name, expr, info["kind"]))
            if info["kind"] in SIGNED_KINDS:   # a signed Go integer: the definition takes it as Z
                return dict(kind="symint", aff=None, coq="(Some %s)" % name, go=expr)
            return dict(kind="symint", aff=None, coq="(Some (Z.of_N %s))" % name, go=expr)
        raise Unsupported("%s: expression %r used as an operand" % (self.fn, e))

    def compare(self, op, a, b):
        A, B = self.operand(a), self.operand(b)
        num = ("INTEGER", "NUMERIC", "REAL")

        def is_int_value(x):  # operand that holds an INTEGER at run time (given our writers)
            return x["kind"] in ("int", "symint") or (x["kind"] == "col" and x["aff"] in num)

        if A["kind"] == "null" or B["kind"] == "null":
            return "(@None bool)"
        if A["aff"] == "REAL" or B["aff"] == "REAL":
            raise Unsupported("%s: REAL affinity" % self.fn)
        # both integer-valued: numeric comparison (rule 1 changes nothing)
        if is_int_value(A) and is_int_value(B):
            return "(sql_cmp_int %s %s %s)" % (op, A["coq"], B["coq"])
        # column with numeric affinity against a text constant: NUMERIC affinity is applied to the constant
        for X, Y, flip in ((A, B, False), (B, A, True)):
            if X["kind"] == "col" and X["aff"] in num and Y["kind"] == "text":
                if re.fullmatch(r'\s*[+-]?\d+\s*', Y["val"]):
                    y = "(Some (%d)%%Z)" % int(Y["val"])
                    return "(sql_cmp_int %s %s %s)" % ((op, X["coq"], y) if not flip else (op, y, X["coq"]))
                if re.fullmatch(r'\s*[+-]?(\d+\.?\d*|\.\d+)([eE][+-]?\d+)?\s*', Y["val"]):
                    raise Unsupported("%s: text constant %r converts to REAL" % (self.fn, Y["val"]))
                # stays TEXT: INTEGER < TEXT whatever the values
                lt = not flip   # X(int) < Y(text); if flipped the left operand is the text
                r = {"Ceq": False, "Cne": True, "Clt": lt, "Cle": lt, "Cgt": not lt, "Cge": not lt}[op]
                return "(sql_cmp_classes %s %s %s)" % ("true" if r else "false", A["coq"], B["coq"])
        # TEXT column against a constant/parameter without affinity: TEXT affinity is applied to it
        for X, Y, flip in ((A, B, False), (B, A, True)):
            if X["kind"] == "col" and X["aff"] == "TEXT" and Y["kind"] in ("int", "text"):
                y = "(Some %s)" % coq_string(str(Y["val"]))
                return "(sql_cmp_text %s %s %s)" % ((op, X["coq"], y) if not flip else (op, y, X["coq"]))
            if X["kind"] == "col" and X["aff"] == "TEXT" and Y["kind"] == "symint":
                raise Unsupported("%s: TEXT column %s compared with integer argument %s (needs its decimal rendering)" % (self.fn, X["col"], Y["go"]))
        if A["kind"] == "col" and B["kind"] == "col":
            if A["aff"] == "TEXT" and B["aff"] == "TEXT":
                return "(sql_cmp_text %s %s %s)" % (op, A["coq"], B["coq"])
            if A["aff"] == "BLOB" and B["aff"] == "BLOB":
                # BLOB columns are modelled by the number they encode (Rows.v): only (in)equality carries over
                if op == "Ceq":
                    return "(sql_eq_blob %s %s)" % (A["coq"], B["coq"])
                if op == "Cne":
                    return "(sql_ne_blob %s %s)" % (A["coq"], B["coq"])
                raise Unsupported("%s: ordering comparison of BLOB columns %s, %s (memcmp of the encoding is not numeric order)" % (self.fn, A["col"], B["col"]))
            raise Unsupported("%s: comparison of columns with affinities %s and %s" % (self.fn, A["aff"], B["aff"]))
        if A["kind"] in ("int", "text") and B["kind"] in ("int", "text"):
            raise Unsupported("%s: comparison between two constants" % self.fn)
        raise Unsupported("%s: comparison of %s/%s with %s/%s is outside the supported fragment" % (self.fn, A["kind"], A["aff"], B["kind"], B["aff"]))

    def cond(self, e):
        k = e[0]
        if k == "and":
            return "(sql_and %s %s)" % (self.cond(e[1]), self.cond(e[2]))
        if k == "or":
            return "(sql_or %s %s)" % (self.cond(e[1]), self.cond(e[2]))
        if k == "not":
            return "(sql_not %s)" % self.cond(e[1])
        if k == "cmp":
            return self.compare(e[1], e[2], e[3])
        if k == "isnull":
            return "(sql_isnull %s)" % self.operand(e[1])["coq"]
        if k == "notnull":
            return "(sql_notnull %s)" % self.operand(e[1])["coq"]
        if k == "between":
            return "(sql_and %s %s)" % (self.compare("Cge", e[1], e[2]), self.compare("Cle", e[1], e[3]))
        if k == "in":
            acc = "(Some false)"
            for it in reversed(e[2]):
                acc = "(sql_or %s %s)" % (self.compare("Ceq", e[1], it), acc)
            return acc
        if k in ("col", "int", "param"):
            o = self.operand(e)
            if o["kind"] in ("int", "symint") or (o["kind"] == "col" and o["aff"] in ("INTEGER", "NUMERIC")):
                return "(sql_truthy_int %s)" % o["coq"]
            raise Unsupported("%s: %s operand used as a condition" % (self.fn, o["aff"] or o["kind"]))
        if k == "null":
            return "(@None bool)"
        if k == "exists":
            return self.exists(e[1])
        raise Unsupported("%s: %r used as a condition" % (self.fn, e))

    def exists(self, sel):
        """EXISTS (SELECT ... FROM t [a] WHERE e): some row of t makes e true; never NULL"""
        if sel["joins"]:
            raise Unsupported("%s: JOIN inside EXISTS is outside the supported fragment" % self.fn)
        if sel["limit"] is not None and not (sel["limit"][0] == "int" and sel["limit"][1] >= 1):
            raise Unsupported("%s: LIMIT inside EXISTS must be a positive literal" % self.fn)
        table, alias = sel["root"]
        tp = self.table_param(table)
        if alias in self.scopes:
            raise Unsupported("%s: alias %s of the EXISTS sub-select shadows an outer table" % (self.fn, alias))
        self.nexists += 1
        var = "x%d" % self.nexists
        self.scopes[alias] = (table, var, False)
        try:
            body = self.cond(sel["where"]) if sel["where"] is not None else "(Some true)"
        finally:
            del self.scopes[alias]
        return "(sql_exists (fun %s => %s) %s)" % (var, body, tp)


def sql_comment(sql):
    """the statement on one line, safe inside a Coq comment"""
    t = " ".join(re.sub(r'--[^\n]*', '', sql).split())
    return t.replace("(*", "( *").replace("*)", "* )")


def translate(spec, schema, gosrc, imports, q, probe_results):
    fn = q["fn"]
    params, body = q["_params"], q["_body"]
    sql, args = q["_sql"], q["_args"]
    p = Parser(tokenize(sql))
    st = p.statement()
    sel = st["select"]
    root, joins, where = sel["root"], sel["joins"], sel["where"]
    if p.nparams != len(args):
        raise Unsupported("%s: the SQL has %d placeholder(s) but %d argument(s) are bound — database/sql rejects this call" % (fn, p.nparams, len(args)))
    tabs = spec["tables"]
    if root[0] != q["table"]:
        raise Unsupported("%s: selects FROM %s, expected %s" % (fn, root[0], q["table"]))
    want = q.get("statement", "select")
    if st["kind"] != want:
        raise Unsupported("%s: the statement is %s %s, the model expects %s" % (fn, "an" if st["kind"] == "update" else "a", st["kind"].upper(), want.upper()))
    arginfo = [probe_results["%s#%d" % (fn, i)] for i in range(len(args))]
    em = Emitter(spec, schema, fn, root, joins, args, arginfo, params)
    notes = []
    if st["kind"] in ("delete", "update"):
        # DELETE/UPDATE t ... WHERE id IN (SELECT a.id FROM t a ...): the rows of t hit are those for which the
        # inner SELECT yields a row, provided both ids are t's primary key
        tt = st["target"]
        pk = [c for c, d in schema[tt[0]].items() if d["pk"]]
        key = st["key"]
        if tt[0] != root[0]:
            raise Unsupported("%s: %s on %s, but the sub-select ranges over %s" % (fn, st["kind"].upper(), tt[0], root[0]))
        if not (key[0] == "col" and key[1] in (None, tt[1]) and [key[2]] == pk):
            raise Unsupported("%s: the %s does not test the primary key of %s" % (fn, st["kind"].upper(), tt[0]))
        cols = sel["cols"]
        if len(cols) == 3 and cols[0][0] == "id" and cols[1] == ("op", ".") and cols[2][0] == "id":
            okc = cols[0][1] == root[1] and [cols[2][1]] == pk
        else:
            okc = len(cols) == 1 and cols[0][0] == "id" and [cols[0][1]] == pk and \
                not any(cols[0][1] in schema[jt[0]] for _, jt, _ in joins)
        if not okc:
            raise Unsupported("%s: the sub-select does not return the primary key of %s" % (fn, tt[0]))
        for col, v in st["sets"]:
            if col not in schema[tt[0]]:
                raise Unsupported("%s: table %s has no column %s" % (fn, tt[0], col))
            if v[0] == "param":
                em.operand(v)   # must be bindable
        if st["kind"] == "update":
            want_sets = q.get("sets")
            got_sets = sorted("%s=%s" % (c, "NULL" if v[0] == "null" else "?" if v[0] == "param" else str(v[1])) for c, v in st["sets"])
            if want_sets is None or sorted(want_sets) != got_sets:
                raise Unsupported("%s: the UPDATE sets %s, the model expects %s" % (fn, got_sets, want_sets))
    order_key = None
    if q.get("limit") == "top-desc":
        # ... WHERE p ORDER BY <column> DESC LIMIT n: the n rows with the greatest <column> among those that
        # satisfy p (SqlJoin.v sql_top_desc).  The ORDER BY decides WHICH rows are hit: it is part of the selection.
        toks = sel.get("order_toks") or []
        if not sel["order_by"] or sel["limit"] is None:
            raise Unsupported("%s: the model expects ORDER BY <column> DESC LIMIT n (the n greatest), the statement has %s" % (
                fn, "no ORDER BY" if not sel["order_by"] else "no LIMIT"))
        names = [t for t in toks if t[0] == "id"]
        rest = [t for t in toks if t[0] != "id" and t != ("op", ".")]
        if not (1 <= len(names) <= 2 and rest == [("kw", "DESC")]):
            raise Unsupported("%s: ORDER BY must be a single column, DESC (found: %s)" % (fn, " ".join(str(t[1]) for t in toks) or "-"))
        ocol = names[-1][1]
        if len(names) == 2 and names[0][1] != root[1]:
            raise Unsupported("%s: ORDER BY column %s.%s is not a column of %s" % (fn, names[0][1], ocol, root[0]))
        want_col = q.get("order_column")
        if ocol not in schema[root[0]] or (want_col and ocol != want_col):
            raise Unsupported("%s: ORDER BY %s, the model expects %s of %s" % (fn, ocol, want_col or "a column", root[0]))
        if not schema[root[0]][ocol].get("notnull"):
            raise Unsupported("%s: ORDER BY column %s may be NULL" % (fn, ocol))
        lim = em.operand(sel["limit"])
        if lim["kind"] != "int" or lim["val"] < 1:
            raise Unsupported("%s: LIMIT must be a positive constant (found %s)" % (fn, lim.get("go") or lim.get("val") or lim["kind"]))
        order_key = ocol
        em.cols_used.add((root[0], ocol)) if isinstance(em.cols_used, set) else em.cols_used.append((root[0], ocol))
        notes.append("ORDER BY %s DESC LIMIT %d: the rows hit are the (at most) %d rows with the greatest %s among the selected ones (sql_top_desc)" % (ocol, lim["val"], lim["val"], ocol))
    elif sel["order_by"] or sel["limit"] is not None:
        mode = q.get("limit")
        if mode not in ("batch", "pick-one"):
            raise Unsupported("SQL: trailing clause ORDER BY/LIMIT is outside the supported fragment (it could change which rows are selected)")
        if sel["limit"] is None:
            notes.append("ORDER BY: the order of the result is not part of the selection")
        else:
            lim = em.operand(sel["limit"])
            if lim["kind"] != "int" or lim["val"] < 1:
                raise Unsupported("%s: LIMIT must be a positive constant (found %s)" % (fn, lim.get("go") or lim.get("val") or lim["kind"]))
            if mode == "batch":
                notes.append("LIMIT %d: batch size; the caller repeats the statement until it hits no row, so the rows hit in total are the rows selected without the LIMIT" % lim["val"])
            else:
                notes.append("%sLIMIT %d: the caller takes the first row, or reports that no row is selected" % ("ORDER BY, " if sel["order_by"] else "", lim["val"]))
    elif q.get("limit") == "batch":
        notes.append("no LIMIT: one execution hits every selected row")
    em.scopes[root[1]] = (root[0], "c", False)
    wrappers = []
    lefts = []
    for kind, (jt, ja), on in joins:
        if ja in em.scopes:
            raise Unsupported("%s: duplicate table alias %s" % (fn, ja))
        if kind == "left":
            # LEFT JOIN t a ON e: per row so far, the rows of t for which e is true, or one all-NULL row
            tp = em.table_param(jt)
            em.scopes[ja] = (jt, "t", False)
            on_coq = em.cond(on)
            var = "j%d" % (len(lefts) + 1)
            em.scopes[ja] = (jt, var, True)
            lefts.append((var, on_coq, tp))
            continue
        if lefts:
            raise Unsupported("%s: INNER JOIN after a LEFT JOIN is outside the supported fragment" % fn)
        key = "%s>%s" % (root[0], jt)
        if key not in spec["joins"]:
            raise Unsupported("%s: JOIN %s is not modelled" % (fn, jt))
        j = spec["joins"][key]
        evar = "e" if not wrappers else "e%d" % (len(wrappers) + 1)
        em.scopes[ja] = (jt, evar, False)
        # ON must be <root>.<pk> = <joined>.<unique column>: at most one joined row per root row
        # ("fk": <root>.<any column> = <joined>.<unique column>, the joined row being a field of the root row)
        ok = False
        if on[0] == "cmp" and on[1] == "Ceq" and on[2][0] == "col" and on[3][0] == "col":
            sides = []
            for s in (on[2], on[3]):
                a = em.table_of(s[1], s[2])
                sides.append((em.scopes[a][0], s[2]))
            if sorted(sides) == sorted([(root[0], j["root_col"]), (jt, j["join_col"])]):
                ok = (schema[root[0]][j["root_col"]]["pk"] or bool(j.get("fk"))) and schema[jt][j["join_col"]]["unique"]
        if not ok:
            raise Unsupported("%s: JOIN condition on %s is not the modelled unique-key join" % (fn, jt))
        wrappers.append((j["field"], evar))
    body_coq = em.cond(where) if where is not None else "(Some true)"
    names = [s[0] for s in em.sym]
    # stable parameter order: as the Go function declares them
    order = []
    for pn, _ in params:
        for s in em.sym:
            if re.search(r'\b%s\b' % re.escape(pn), s[1]) and s not in order:
                order.append(s)
    sig = " ".join("(%s : %s)" % (s[0], "Z" if s[2] in SIGNED_KINDS else "N") for s in order)
    # whole-table parameters in the order of the spec's table list, whatever the order of the JOINs
    tsig = "".join(" (T_%s : list %s)" % (t, tabs[t]["row"]) for t in tabs if t in em.tables)
    rowty = tabs[root[0]]["row"]
    text = "(* %s: %s\n   bound: %s" % (fn, sql_comment(sql) if (notes or st["kind"] != "select") else " ".join(sql.split()), ", ".join(args) or "-")
    for n in notes:
        text += "\n   %s" % n
    text += " *)\n"
    inner = "sql_true %s" % body_coq
    for var, on_coq, tp in reversed(lefts):
        inner = "existsb (fun %s => %s) (sql_left_join (fun t => sql_true %s) %s)" % (var, inner, on_coq, tp)
    for f, evar in reversed(wrappers):
        inner = "match %s c with None => false | Some %s => %s end" % (f, evar, inner)
    text += "Definition %s (c : %s)%s %s : bool :=\n  %s.\n" % (q["name"], rowty, tsig, sig, inner)
    chk = " && ".join("u64_bindable %s" % s[0] for s in order if s[2] in ("uint64", "uint")) or "true"
    text += "Definition %s_bindable %s : bool := %s.\n" % (q["name"], sig, chk)
    if order_key is not None:
        text += "Definition %s_key (c : %s) : option Z := col_%s_%s c.\n" % (q["name"], rowty, root[0], order_key)
    return text, em.cols_used, [s[0] for s in order]


def accessor(spec, schema, table, col):
    c = schema[table][col]
    t = spec["tables"][table]
    field = "%s_%s" % (t["prefix"], col)
    var = "(r : %s)" % t["row"]
    name = "col_%s_%s" % (table, col)
    st = spec.get("status_columns", {}).get("%s.%s" % (table, col))
    if st:
        if c["aff"] == "TEXT":
            return "Definition %s %s : option string := Some (%s (%s r))." % (name, var, st["repr"], field)
        return "Definition %s %s : option Z := Some (%s (%s r))." % (name, var, st["repr"], field)
    decl = c["decl"].upper()
    if decl == "BOOLEAN" and c["notnull"]:
        return "Definition %s %s : option Z := Some (Z.b2z (%s r))." % (name, var, field)
    if c["aff"] == "INTEGER":
        if c["notnull"]:
            return "Definition %s %s : option Z := Some (Z.of_N (%s r))." % (name, var, field)
        return "Definition %s %s : option Z := option_map Z.of_N (%s r)." % (name, var, field)
    if c["aff"] == "BLOB":
        if c["notnull"]:
            return "Definition %s %s : option N := Some (%s r)." % (name, var, field)
        return "Definition %s %s : option N := %s r." % (name, var, field)
    raise Unsupported("column %s.%s of declared type %r has no accessor rule" % (table, col, c["decl"]))


def main():
    if len(sys.argv) != 2:
        die("usage: sqlgen.py <spec.json>")
    spec = json.load(open(sys.argv[1]))
    try:
        schema = parse_schema(open(os.path.join(REPO, spec["schema"])).read())
        for t in spec["tables"]:
            if t not in schema:
                raise Unsupported("table %s not found in %s" % (t, spec["schema"]))
        srcs = {}
        items, consts = [], []
        imports = {}
        for q in spec["queries"]:
            path = os.path.join(REPO, q["file"])
            if path not in srcs:
                srcs[path] = open(path).read()
            imports.update(go_imports(srcs[path]))
            params, body = go_function(srcs[path], q["fn"])
            ps = [(n, t) for n, t in go_params(params) if not re.search(r'\*?\btxn\b', t)]
            sql, args = query_call(body, q["fn"], q.get("call"))
            q["_params"], q["_body"], q["_sql"], q["_args"] = ps, body, sql, args
            for i, a in enumerate(args):
                items.append(("%s#%d" % (q["fn"], i), ps, a))
        for key, st in spec.get("status_columns", {}).items():
            for ctor, goexpr in st["values"]:
                consts.append(("const:%s:%s" % (key, ctor), goexpr))
        # the status constants live in packages the query files import
        for key, st in spec.get("status_columns", {}).items():
            for alias, path in st.get("imports", {}).items():
                imports[alias] = (None, path)
        pr = probe_go(items, consts, imports, spec.get("probe_package"))

        out = ["(* GENERATED by tools/sqlgen/sqlgen.py from the current source of the repository —",
               "   do not edit; regenerated at the start of every check run (props \"gen\" entry).",
               "   spec: %s *)" % os.path.relpath(sys.argv[1], VERIF),
               "From HostdBase Require Import Base.",
               "From %s Require Import %s." % (spec["coq_logical"], " ".join(spec.get("require", ["Rows", "SqlSem"]))),
               ""]
        # stored representation of the status constants (what database/sql binds for the Go constants)
        for key, st in spec.get("status_columns", {}).items():
            table, col = key.split(".")
            aff = schema[table][col]["aff"]
            arms = []
            for ctor, goexpr in st["values"]:
                r = pr["const:%s:%s" % (key, ctor)]
                if r["err"]:
                    raise Unsupported("%s cannot be bound: %s" % (goexpr, r["err"]))
                if aff == "TEXT":
                    # a TEXT column stores what is bound converted to text
                    if r["drv"] not in ("string", "int64"):
                        raise Unsupported("%s binds as %s" % (goexpr, r["drv"]))
                    arms.append("  | %s => %s" % (ctor, coq_string(r["val"])))
                else:
                    if r["drv"] != "int64":
                        raise Unsupported("%s binds as %s into the %s column %s" % (goexpr, r["drv"], aff, key))
                    arms.append("  | %s => (%d)%%Z" % (ctor, int(r["val"])))
            out.append("(* %s as written by the store: the Go constants through database/sql *)" % key)
            out.append("Definition %s (s : %s) : %s :=\n  match s with\n%s\n  end.\n" % (
                st["repr"], st["type"], "string" if aff == "TEXT" else "Z", "\n".join(arms)))
        defs, cols = [], set()
        sigs = {}
        for q in spec["queries"]:
            text, used, names = translate(spec, schema, srcs[os.path.join(REPO, q["file"])], imports, q, pr)
            defs.append(text)
            cols |= used
            sigs[q["name"]] = names
        # "columns": accessors to emit whether or not a statement uses them (keeps the vocabulary of the
        # generated file stable under edits of the statements)
        for table, t in spec["tables"].items():
            for col in t.get("columns", []):
                if col not in schema[table]:
                    raise Unsupported("table %s has no column %s" % (table, col))
                cols.add((table, col))
        for table, col in sorted(cols):
            out.append(accessor(spec, schema, table, col))
        out.append("")
        out += defs
        text = "\n".join(out)
    except Unsupported as e:
        die(str(e))
    except (OSError, ValueError, KeyError, IndexError) as e:
        die("%s: %s" % (type(e).__name__, e))
    # VERIF_SQLGEN_ROOT: write below another root (selftest's private copy of the Coq groups)
    dst = os.path.join(os.environ.get("VERIF_SQLGEN_ROOT", VERIF), spec["out"])
    os.makedirs(os.path.dirname(dst), exist_ok=True)
    old = open(dst).read() if os.path.exists(dst) else None
    if old != text:
        open(dst, "w").write(text)
    print("sqlgen: %d queries translated from %s -> %s%s" % (len(spec["queries"]), REPO, spec["out"], "" if old == text else " (changed)"))
    for n, s in sigs.items():
        print("  %s %s" % (n, " ".join(s)))


if __name__ == "__main__":
    main()
