package main

import (
	"fmt"
	"go/ast"
	"go/token"
	"go/types"
	"regexp"
	"strconv"
	"strings"
)

// ---------------------------------------------------------------- environments

type variable struct {
	id    int
	goN   string
	coq   string
	ty    *ty
	depth int // nesting depth of the declaring scope
}

type env struct {
	parent *env
	depth  int
	vars   map[string]*variable
}

func newEnv(parent *env) *env {
	d := 0
	if parent != nil {
		d = parent.depth + 1
	}
	return &env{parent: parent, depth: d, vars: map[string]*variable{}}
}

func (e *env) lookup(name string) *variable {
	for s := e; s != nil; s = s.parent {
		if v, ok := s.vars[name]; ok {
			return v
		}
	}
	return nil
}

// coqNameLive reports whether a Coq name is bound to a Go variable that is still in scope
func (e *env) coqNameLive(coq string) bool {
	for s := e; s != nil; s = s.parent {
		for _, v := range s.vars {
			if v.coq == coq {
				return true
			}
		}
	}
	return false
}

// ---------------------------------------------------------------- per-function context

type fsig struct {
	params  []*ty // Go parameter types, in order
	results []*ty // without the trailing error
	hasErr  bool
}

// region: a branch or loop body whose assignments to outer variables are collected
type region struct {
	depth    int // variables declared at depth <= this are "outer"
	assigned map[int]*variable
}

type fctx struct {
	u          *unit
	fd         *ast.FuncDecl
	sig        *fsig
	ntmp       int
	nvar       int
	pre        []string // bindings in front of the statement being translated
	regions    []*region
	noOk       int             // > 0: a successful return here is outside the subset
	fresh      map[string]bool // slice paths made by make() in this function and not copied since
	inLoop     int
	keys       []string // Go names of the types.UnlockKey parameters, in order
	nplace     int
	elemWrites map[string]int // element assignments seen so far, by slice path
}

type val struct {
	t  string // Coq term; compound terms are parenthesised
	ty *ty
}

func (c *fctx) tmp() string {
	c.ntmp++
	return "tmp" + strconv.Itoa(c.ntmp)
}

func (c *fctx) declare(e *env, n *ast.Ident, t *ty) *variable {
	name := n.Name
	coq := name
	if reserved[coq] || strings.HasPrefix(coq, "tmp") || strings.Contains(coq, "@@") {
		coq += "_"
	}
	base := coq
	for i := 1; e.coqNameLive(coq) || reserved[coq]; i++ {
		coq = base + "_" + strconv.Itoa(i)
	}
	c.nvar++
	v := &variable{id: c.nvar, goN: name, coq: coq, ty: t, depth: e.depth}
	e.vars[name] = v
	return v
}

func (c *fctx) noteAssigned(v *variable) {
	for _, r := range c.regions {
		if v.depth <= r.depth {
			r.assigned[v.id] = v
		}
	}
}

// capture runs f and returns the bindings it produced, leaving c.pre as it was
func (c *fctx) capture(f func()) []string {
	save := c.pre
	c.pre = nil
	f()
	got := c.pre
	c.pre = save
	return got
}

func (c *fctx) goType(x ast.Expr) *ty {
	s := types.ExprString(x)
	var t *ty
	ok := false
	if c.u.out.mdm {
		t, ok = mdmTypes[s]
	}
	if !ok {
		t, ok = goTypes[s]
	}
	if !ok {
		fail(x, "type %s is not in the type table", s)
	}
	for _, m := range qualifierRe.FindAllStringSubmatch(s, -1) {
		c.u.g.usesPkg(x, m[1])
	}
	return t
}

var qualifierRe = regexp.MustCompile(`\b(\w+)\.`)

// path of an lvalue-like expression made of identifiers and field selections ("" otherwise)
func pathOf(x ast.Expr) string {
	switch x := x.(type) {
	case *ast.Ident:
		return x.Name
	case *ast.SelectorExpr:
		if p := pathOf(x.X); p != "" {
			return p + "." + x.Sel.Name
		}
	case *ast.ParenExpr:
		return pathOf(x.X)
	}
	return ""
}

// escape: the value at path p (and everything below it) may now be shared
func (c *fctx) escape(p string) {
	if p == "" {
		return
	}
	for q := range c.fresh {
		if q == p || strings.HasPrefix(q, p+".") {
			if c.inLoop > 0 {
				panic(unsupported{token.NoPos, fmt.Sprintf("%s: slice %s made in this function is copied inside a loop", c.fd.Name.Name, q)})
			}
			delete(c.fresh, q)
		}
	}
}

// ---------------------------------------------------------------- expressions

// expr translates x; bindings of sub-expressions that can panic are appended to c.pre in
// evaluation order.  want (may be nil) types untyped constants.  whole = the value is used
// as a whole (copied), which ends the freshness of slices reachable from it.
func (c *fctx) expr(x ast.Expr, e *env, want *ty) val { return c.expr1(x, e, want, true) }

// exprRead: x is only read through (indexed, measured, ranged over, field-selected)
func (c *fctx) exprRead(x ast.Expr, e *env) val { return c.expr1(x, e, nil, false) }

func (c *fctx) expr1(x ast.Expr, e *env, want *ty, whole bool) val {
	switch x := x.(type) {
	case *ast.ParenExpr:
		return c.expr1(x.X, e, want, whole)

	case *ast.Ident:
		switch x.Name {
		case "true", "false":
			if e.lookup(x.Name) == nil {
				return val{x.Name, tBool}
			}
		case "nil":
			fail(x, "nil is only supported as the error of a return")
		}
		v := e.lookup(x.Name)
		if v == nil {
			fail(x, "identifier %s is not a local variable or parameter", x.Name)
		}
		if v.ty.k == kKey {
			fail(x, "a types.UnlockKey can only be passed to contractUnlockConditions")
		}
		if whole && (v.ty.k == kRev || v.ty.k == kList) {
			c.escape(x.Name)
		}
		return val{v.coq, v.ty}

	case *ast.BasicLit:
		if x.Kind != token.INT {
			fail(x, "literal %s is not supported", x.Value)
		}
		n, err := strconv.ParseUint(x.Value, 0, 64)
		if err != nil {
			fail(x, "integer literal %s", x.Value)
		}
		s := strconv.FormatUint(n, 10)
		if want == nil || want.k == kInt {
			return val{s, tInt}
		}
		return c.typedConst(x, s, want)

	case *ast.SelectorExpr:
		if id, ok := x.X.(*ast.Ident); ok && e.lookup(id.Name) == nil {
			// package-qualified constant
			q := id.Name + "." + x.Sel.Name
			ci, ok := constants[q]
			if !ok {
				fail(x, "%s is not in the constant table", q)
			}
			c.u.g.usesPkg(x, id.Name)
			if ci.formOnly && !c.u.out.formation {
				fail(x, "%s is only available to the formation validators", q)
			}
			if ci.mdmOnly && !c.u.out.mdm {
				fail(x, "%s is only available to the MDM accessors", q)
			}
			if ci.ty.k == kInt && want != nil && want.k == kU64 {
				return val{ci.coq, tU64}
			}
			return val{ci.coq, ci.ty}
		}
		r := c.exprRead(x.X, e)
		fi, ok := fields[r.ty.k][x.Sel.Name]
		if !ok {
			fail(x, "field %s of %s is not in the field table", x.Sel.Name, r.ty)
		}
		if whole && fi.ty.k == kList {
			c.escape(pathOf(x))
		}
		return val{"(" + fi.get + " " + r.t + ")", fi.ty}

	case *ast.IndexExpr:
		l := c.exprRead(x.X, e)
		if l.ty.k != kList {
			fail(x, "indexing a %s", l.ty)
		}
		i := c.expr(x.Index, e, tNat)
		if i.ty.k != kNat {
			fail(x.Index, "index of type %s", i.ty)
		}
		t := c.tmp()
		c.pre = append(c.pre, fmt.Sprintf("do %s <- %s %s %s;", t, nthFn(l.ty.elem), l.t, i.t))
		return val{t, l.ty.elem}

	case *ast.UnaryExpr:
		if x.Op != token.NOT {
			fail(x, "unary operator %s", x.Op)
		}
		b := c.expr(x.X, e, tBool)
		if b.ty.k != kBool {
			fail(x, "! applied to %s", b.ty)
		}
		return val{"(negb " + b.t + ")", tBool}

	case *ast.CompositeLit:
		if len(x.Elts) == 0 {
			switch types.ExprString(x.Type) {
			case "types.Hash256":
				c.u.g.usesPkg(x, "types")
				return val{"0", tHash}
			case "types.FileContractRevision", "types.FileContract":
				c.u.g.usesPkg(x, "types")
				return val{"zero_rev", tRev}
			case "types.UnlockKey":
				if c.u.out.mdm {
					c.u.g.usesPkg(x, "types")
					return val{"zero_ukey", tUKey}
				}
			case "types.Signature":
				if c.u.out.mdm {
					c.u.g.usesPkg(x, "types")
					return val{"0", tSig}
				}
			}
		}
		if c.isUCLit(x, e) {
			return val{"uhexp", tUC}
		}
		fail(x, "composite literal %s is not supported", types.ExprString(x.Type))

	case *ast.BinaryExpr:
		return c.binary(x, e)

	case *ast.SliceExpr:
		// pd[lo:hi] / pd[lo:] / pd[:hi] on the program data (len = cap)
		if x.Slice3 || x.Max != nil {
			fail(x, "three-index slice")
		}
		d := c.exprRead(x.X, e)
		if d.ty.k != kPData {
			fail(x, "slice expression on %s (only the program data can be sliced)", d.ty)
		}
		lo, hi := val{"0", tU64}, val{"(plen " + d.t + ")", tU64}
		if x.Low != nil {
			lo = c.expr(x.Low, e, tU64)
		}
		if x.High != nil {
			hi = c.expr(x.High, e, tU64)
		}
		if lo.ty.k != kU64 || hi.ty.k != kU64 {
			fail(x, "slice bounds of type %s and %s (uint64 expected)", lo.ty, hi.ty)
		}
		t := c.tmp()
		c.pre = append(c.pre, fmt.Sprintf("do %s <- pd_slice %s %s %s;", t, d.t, lo.t, hi.t))
		return val{t, tView}

	case *ast.StarExpr:
		// *(*T)(s): the first n bytes of s as an array value
		if call, ok := x.X.(*ast.CallExpr); ok && len(call.Args) == 1 {
			if p, ok := call.Fun.(*ast.ParenExpr); ok {
				if st, ok := p.X.(*ast.StarExpr); ok {
					name := types.ExprString(st.X)
					if dc, ok := derefConv[name]; ok && c.u.out.mdm {
						for _, m := range qualifierRe.FindAllStringSubmatch(name, -1) {
							c.u.g.usesPkg(x, m[1])
						}
						s := c.expr(call.Args[0], e, nil)
						if s.ty.k != kView {
							fail(x, "conversion of %s to *%s", s.ty, name)
						}
						t := c.tmp()
						c.pre = append(c.pre, fmt.Sprintf("do %s <- view_array %s %d%%nat;", t, s.t, dc.n))
						return val{t, dc.ty}
					}
				}
			}
		}
		fail(x, "pointer dereference is only supported as *(*T)(bytes) for the array types of the conversion table")

	case *ast.CallExpr:
		return c.call(x, e, whole)
	}
	fail(x, "expression %s is not in the supported subset", types.ExprString(x))
	return val{}
}

func nthFn(elem *ty) string {
	if elem.k == kOutput {
		return "nth_out"
	}
	return "nth_res"
}

func (c *fctx) typedConst(n ast.Node, s string, want *ty) val {
	switch {
	case want.k == kNat:
		return val{s + "%nat", tNat}
	case want.k == kU64:
		return val{s, want}
	}
	fail(n, "integer constant used as %s", want)
	return val{}
}

// unify the operand types of a binary operator (untyped constants take the other side's type)
func (c *fctx) operands(x *ast.BinaryExpr, e *env) (val, val) {
	_, lconst := x.X.(*ast.BasicLit)
	var l, r val
	if lconst {
		r = c.expr(x.Y, e, nil)
		l = c.expr(x.X, e, r.ty)
	} else {
		l = c.expr(x.X, e, nil)
		r = c.expr(x.Y, e, l.ty)
	}
	if l.ty.k == kInt && r.ty.k == kU64 && !lconst {
		l.ty = tU64 // a named untyped constant
	}
	if !l.ty.same(r.ty) {
		fail(x, "operands of %s have types %s and %s", x.Op, l.ty, r.ty)
	}
	return l, r
}

func (c *fctx) binary(x *ast.BinaryExpr, e *env) val {
	switch x.Op {
	case token.LAND, token.LOR:
		l := c.expr(x.X, e, tBool)
		var r val
		sub := c.capture(func() { r = c.expr(x.Y, e, tBool) })
		if l.ty.k != kBool || r.ty.k != kBool {
			fail(x, "%s on %s and %s", x.Op, l.ty, r.ty)
		}
		if len(sub) == 0 {
			if x.Op == token.LAND {
				return val{"(" + l.t + " && " + r.t + ")", tBool}
			}
			return val{"(" + l.t + " || " + r.t + ")", tBool}
		}
		// the right operand can panic: it is evaluated only when Go evaluates it
		t := c.tmp()
		rhs := "(" + strings.Join(sub, " ") + " Ok " + r.t + ")"
		if x.Op == token.LAND {
			c.pre = append(c.pre, fmt.Sprintf("do %s <- (if %s then %s else Ok false);", t, l.t, rhs))
		} else {
			c.pre = append(c.pre, fmt.Sprintf("do %s <- (if %s then Ok true else %s);", t, l.t, rhs))
		}
		return val{t, tBool}

	case token.EQL, token.NEQ, token.LSS, token.LEQ, token.GTR, token.GEQ:
		// x.Cmp(y) OP 0
		if call, ok := x.X.(*ast.CallExpr); ok {
			if sel, ok := call.Fun.(*ast.SelectorExpr); ok && sel.Sel.Name == "Cmp" {
				if lit, ok := x.Y.(*ast.BasicLit); !ok || lit.Value != "0" {
					fail(x, "Cmp is only supported in the shape x.Cmp(y) OP 0")
				}
				if len(call.Args) != 1 {
					fail(call, "Cmp takes one argument")
				}
				a := c.expr(sel.X, e, nil)
				b := c.expr(call.Args[0], e, nil)
				if a.ty.k != kCur || b.ty.k != kCur {
					fail(call, "Cmp on %s and %s", a.ty, b.ty)
				}
				return val{cmpN(x.Op, a.t, b.t), tBool}
			}
		}
		l, r := c.operands(x, e)
		switch {
		case l.ty.isN():
			if (x.Op != token.EQL && x.Op != token.NEQ) && l.ty.k != kU64 {
				fail(x, "%s on %s", x.Op, l.ty)
			}
			return val{cmpN(x.Op, l.t, r.t), tBool}
		case l.ty.k == kNat || l.ty.k == kInt:
			if l.ty.k == kInt {
				fail(x, "comparison of two constants")
			}
			return val{cmpNat(x.Op, l.t, r.t), tBool}
		case l.ty.k == kBool && (x.Op == token.EQL || x.Op == token.NEQ):
			s := "(Bool.eqb " + l.t + " " + r.t + ")"
			if x.Op == token.NEQ {
				s = "(negb " + s + ")"
			}
			return val{s, tBool}
		}
		fail(x, "%s on %s", x.Op, l.ty)

	case token.ADD, token.SUB, token.MUL:
		l, r := c.operands(x, e)
		switch l.ty.k {
		case kU64:
			op := map[token.Token]string{token.ADD: "wadd", token.SUB: "wsub", token.MUL: "wmul"}[x.Op]
			return val{"(" + op + " " + l.t + " " + r.t + ")", tU64}
		case kNat:
			if x.Op == token.ADD {
				return val{"(" + l.t + " + " + r.t + ")%nat", tNat}
			}
		}
		fail(x, "%s on %s", x.Op, l.ty)
	}
	fail(x, "binary operator %s is not supported", x.Op)
	return val{}
}

func cmpN(op token.Token, a, b string) string {
	switch op {
	case token.EQL:
		return "(" + a + " =? " + b + ")"
	case token.NEQ:
		return "(negb (" + a + " =? " + b + "))"
	case token.LSS:
		return "(" + a + " <? " + b + ")"
	case token.LEQ:
		return "(" + a + " <=? " + b + ")"
	case token.GTR:
		return "(" + b + " <? " + a + ")"
	default:
		return "(" + b + " <=? " + a + ")"
	}
}

func cmpNat(op token.Token, a, b string) string {
	switch op {
	case token.EQL:
		return "(Nat.eqb " + a + " " + b + ")"
	case token.NEQ:
		return "(negb (Nat.eqb " + a + " " + b + "))"
	case token.LSS:
		return "(Nat.ltb " + a + " " + b + ")"
	case token.LEQ:
		return "(Nat.leb " + a + " " + b + ")"
	case token.GTR:
		return "(Nat.ltb " + b + " " + a + ")"
	default:
		return "(Nat.leb " + b + " " + a + ")"
	}
}

// isUCCall recognises contractUnlockConditions(hostKey, renterKey) with the function's two key
// parameters in order
func (c *fctx) isUCCall(x *ast.CallExpr, e *env) bool {
	id, ok := x.Fun.(*ast.Ident)
	if !ok || id.Name != "contractUnlockConditions" || e.lookup(id.Name) != nil {
		return false
	}
	if len(c.keys) != 2 || len(x.Args) != 2 {
		fail(x, "contractUnlockConditions needs the function's two types.UnlockKey parameters")
	}
	for i, a := range x.Args {
		ai, ok := a.(*ast.Ident)
		if !ok || ai.Name != c.keys[i] || e.lookup(ai.Name) == nil || e.lookup(ai.Name).ty.k != kKey {
			fail(x, "contractUnlockConditions must be called with (%s, %s) in this order: the oracle parameter uhexp stands for exactly that value", c.keys[0], c.keys[1])
		}
	}
	c.u.checkUCDef(x)
	return true
}

// isUCLit recognises contractUnlockConditions(hostKey, renterKey) written out (the helper inlined):
// types.UnlockConditions{PublicKeys: []types.UnlockKey{renterKey, hostKey}, SignaturesRequired: 2}
// with the function's two key parameters - the second one first, as in the helper
func (c *fctx) isUCLit(x *ast.CompositeLit, e *env) bool {
	if types.ExprString(x.Type) != "types.UnlockConditions" || len(c.keys) != 2 || len(x.Elts) != 2 {
		return false
	}
	for _, k := range c.keys {
		if v := e.lookup(k); v == nil || v.ty.k != kKey {
			return false
		}
	}
	var b strings.Builder
	for _, r := range nodeSource(c.u.g, x) {
		if r != ' ' && r != '\t' && r != '\n' && r != '\r' {
			b.WriteRune(r)
		}
	}
	got := strings.ReplaceAll(b.String(), ",}", "}")
	keys := "PublicKeys:[]types.UnlockKey{" + c.keys[1] + "," + c.keys[0] + "}"
	if got != "types.UnlockConditions{"+keys+",SignaturesRequired:2}" && got != "types.UnlockConditions{SignaturesRequired:2,"+keys+"}" {
		fail(x, "unlock conditions literal is not the value the oracle parameter uhexp stands for: contractUnlockConditions(%s, %s) = {PublicKeys: {%s, %s}, SignaturesRequired: 2}", c.keys[0], c.keys[1], c.keys[1], c.keys[0])
	}
	c.u.g.usesPkg(x, "types")
	return true
}

func (u *unit) checkUCDef(at ast.Node) {
	if u.ucCheck {
		return
	}
	g, fd := u.find("contractUnlockConditions")
	if fd == nil {
		fail(at, "contractUnlockConditions is not defined in this package")
	}
	var b strings.Builder
	src := nodeSource(g, fd)
	for _, r := range src {
		if r != ' ' && r != '\t' && r != '\n' && r != '\r' {
			b.WriteRune(r)
		}
	}
	if b.String() != expectedUC {
		fail(fd, "contractUnlockConditions is not the definition the oracle parameter uhexp stands for")
	}
	u.ucCheck = true
}

func (c *fctx) call(x *ast.CallExpr, e *env, whole bool) val {
	if c.u.out.mdm {
		if v, ok := c.mdmCall(x, e); ok {
			return v
		}
	}
	switch fn := x.Fun.(type) {
	case *ast.Ident:
		if e.lookup(fn.Name) != nil {
			fail(x, "call of a function value")
		}
		switch fn.Name {
		case "len":
			if len(x.Args) != 1 {
				fail(x, "len takes one argument")
			}
			l := c.exprRead(x.Args[0], e)
			if l.ty.k != kList {
				fail(x, "len of %s", l.ty)
			}
			return val{"(length " + l.t + ")", tNat}
		case "uint64":
			if len(x.Args) != 1 {
				fail(x, "conversion takes one argument")
			}
			v := c.expr(x.Args[0], e, tU64)
			if v.ty.k != kU64 {
				fail(x, "uint64(%s) is only supported on a uint64", v.ty)
			}
			return v
		case "make":
			fail(x, "make is only supported as the right-hand side of an assignment")
		case "contractUnlockConditions":
			if c.isUCCall(x, e) {
				return val{"uhexp", tUC}
			}
		}
		// a function of the same file: translated on demand
		c.u.translate(fn.Name, x)
		sig := c.u.sigs[fn.Name]
		if sig.hasErr {
			fail(x, "a function returning an error can only be called as `if err := f(..); err != nil { return .., err }`")
		}
		if len(sig.results) != 1 {
			fail(x, "call of a function with %d results in an expression", len(sig.results))
		}
		t := c.tmp()
		c.pre = append(c.pre, fmt.Sprintf("do %s <- %s;", t, c.callTerm(x, fn.Name, sig, e)))
		return val{t, sig.results[0]}

	case *ast.SelectorExpr:
		if id, ok := fn.X.(*ast.Ident); ok && e.lookup(id.Name) == nil {
			fail(x, "call of %s.%s is not supported here", id.Name, fn.Sel.Name)
		}
		r := c.exprRead(fn.X, e)
		mi, ok := methods[r.ty.k][fn.Sel.Name]
		if !ok {
			// a value-receiver method of the receiver's own local type, defined in this package
			// (programData.contains): translated on demand, the receiver is the first argument
			if key := c.localMethod(r.ty, fn.Sel.Name); key != "" {
				c.u.translate(key, x)
				sig := c.u.sigs[key]
				if sig.hasErr {
					fail(x, "a method returning an error cannot be called in an expression")
				}
				if len(sig.results) != 1 {
					fail(x, "call of a method with %d results in an expression", len(sig.results))
				}
				t := c.tmp()
				c.pre = append(c.pre, fmt.Sprintf("do %s <- %s;", t, c.callTerm(x, strings.ReplaceAll(key, ".", "_")+" "+r.t, sig, e)))
				return val{t, sig.results[0]}
			}
			if fn.Sel.Name == "Cmp" {
				fail(x, "Cmp is only supported in the shape x.Cmp(y) OP 0")
			}
			fail(x, "method %s of %s is not in the method table", fn.Sel.Name, r.ty)
		}
		if mi.pair {
			fail(x, "%s returns two values; it can only be the right-hand side of a two-variable assignment", fn.Sel.Name)
		}
		t := c.methodTerm(x, r, mi, e)
		if mi.monadic {
			tm := c.tmp()
			c.pre = append(c.pre, fmt.Sprintf("do %s <- %s;", tm, t))
			return val{tm, mi.resTy}
		}
		if t == r.t {
			return val{t, mi.resTy}
		}
		return val{"(" + t + ")", mi.resTy}
	}
	fail(x, "call %s is not in the supported subset", types.ExprString(x))
	return val{}
}

// localMethod: "T.m" when t is the model type of the local named type T and the package defines
// a value-receiver method m on T
func (c *fctx) localMethod(t *ty, m string) string {
	tables := []map[string]*ty{goTypes}
	if c.u.out.mdm {
		tables = append(tables, mdmTypes)
	}
	for _, tab := range tables {
		for name, u := range tab {
			if u == t && token.IsIdentifier(name) {
				if _, fd := c.u.find(name + "." + m); fd != nil {
					return name + "." + m
				}
			}
		}
	}
	return ""
}

func (c *fctx) methodTerm(x *ast.CallExpr, r val, mi methodInfo, e *env) string {
	if mi.formOnly && !c.u.out.formation {
		fail(x, "this method is only available to the formation validators")
	}
	t := strings.ReplaceAll(mi.coq, "%r", r.t)
	if mi.argTy == nil {
		if len(x.Args) != 0 {
			fail(x, "unexpected arguments")
		}
		return t
	}
	if len(x.Args) != 1 {
		fail(x, "expected one argument")
	}
	a := c.expr(x.Args[0], e, mi.argTy)
	if !a.ty.same(mi.argTy) {
		fail(x.Args[0], "argument of type %s, expected %s", a.ty, mi.argTy)
	}
	return strings.ReplaceAll(t, "%a", a.t)
}

// callTerm: application of a translated function of the same file to the translated arguments
func (c *fctx) callTerm(x *ast.CallExpr, name string, sig *fsig, e *env) string {
	if len(x.Args) != len(sig.params) {
		fail(x, "%s expects %d arguments", name, len(sig.params))
	}
	parts := []string{name}
	nkeys := 0
	for i, a := range x.Args {
		if sig.params[i].k == kKey {
			ai, ok := a.(*ast.Ident)
			if !ok || nkeys >= len(c.keys) || ai.Name != c.keys[nkeys] {
				fail(a, "types.UnlockKey arguments must be the caller's own key parameters, in order")
			}
			if nkeys == 0 {
				parts = append(parts, "uhexp")
			}
			nkeys++
			continue
		}
		v := c.expr(a, e, sig.params[i])
		if !v.ty.same(sig.params[i]) {
			fail(a, "argument of type %s, expected %s", v.ty, sig.params[i])
		}
		parts = append(parts, v.t)
	}
	return strings.Join(parts, " ")
}

func nodeSource(g *gofile, n ast.Node) string {
	src, err := readFile(g.path)
	if err != nil {
		fail(n, "%v", err)
	}
	return string(src[fset.Position(n.Pos()).Offset:fset.Position(n.End()).Offset])
}

// mdmCall: the call forms of the programData accessors
func (c *fctx) mdmCall(x *ast.CallExpr, e *env) (val, bool) {
	src := types.ExprString(x.Fun)
	switch {
	case src == "uint64" && len(x.Args) == 1:
		// uint64(len(pd)) on the program data
		if in, ok := x.Args[0].(*ast.CallExpr); ok && types.ExprString(in.Fun) == "len" && len(in.Args) == 1 && e.lookup("len") == nil && e.lookup("uint64") == nil {
			d := c.exprRead(in.Args[0], e)
			if d.ty.k == kPData {
				return val{"(plen " + d.t + ")", tU64}, true
			}
		}
	case src == "(*[rhp2.SectorSize]byte)" && len(x.Args) == 1:
		c.u.g.usesPkg(x, "rhp2")
		s := c.expr(x.Args[0], e, nil)
		if s.ty.k != kView {
			fail(x, "conversion of %s to a sector pointer", s.ty)
		}
		t := c.tmp()
		c.pre = append(c.pre, fmt.Sprintf("do %s <- view_sector %s;", t, s.t))
		return val{t, tSectorPtr}, true
	case src == "binary.LittleEndian.Uint64" && len(x.Args) == 1 && e.lookup("binary") == nil:
		c.u.g.usesPkg(x, "binary")
		s := c.expr(x.Args[0], e, nil)
		if s.ty.k != kView {
			fail(x, "binary.LittleEndian.Uint64 of %s", s.ty)
		}
		t := c.tmp()
		c.pre = append(c.pre, fmt.Sprintf("do %s <- view_array %s 8%%nat;", t, s.t))
		return val{t, tU64}, true
	}
	return val{}, false
}
