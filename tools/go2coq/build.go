package main

// build.go — output group "build": host/contracts/update.go buildContractState ->
// coq/Contracts/gen/BuildGen.v, over the types of the hand model coq/Contracts/Build.v
// (fdiff, fdiff2, resk, changes).  The translation scheme is imp.go (symbolic execution).
//
// NAME MAPPING (trusted; printed into the generated file):
//
//	parameters  fces []consensus.FileContractElementDiff -> list fdiff; v2Fces []consensus.V2FileContractElementDiff
//	            -> list fdiff2; revert bool -> bool; tx UpdateStateTx, log *zap.Logger -> no binder
//	d : fdiff   d.FileContractElement.ID -> fd_id d; d.FileContractElement.FileContract.RevisionNumber -> fd_cur d;
//	            d.Revision -> fd_rev d (option: nil = None; the pointed-to contract is known by its RevisionNumber);
//	            d.Created/.Resolved/.Valid -> fd_created/fd_resolved/fd_valid d;
//	            c.MissedHostPayout().Cmp(c.ValidHostPayout()) >= 0 for c = d.FileContractElement.FileContract
//	            (or a copy of it, whatever its RevisionNumber has been set to) -> fd_missed_ge d
//	d : fdiff2  d.V2FileContractElement.ID -> gd_id d; ...V2FileContract.RevisionNumber -> gd_cur d; d.Revision -> gd_rev d;
//	            d.Resolution -> gd_res d (nil = None; *types.V2FileContractRenewal -> KRenewal,
//	            *types.V2FileContractExpiration -> KExpiration b, *types.V2StorageProof -> KProof: all implementations
//	            of types.V2FileContractResolutionType in core); d.Created -> gd_created d;
//	            c.MissedHostValue.Cmp(c.HostOutput.Value) >= 0 for c = d.V2FileContractElement.V2FileContract, on a path
//	            where d.Resolution is known to be an expiration -> the b of KExpiration b
//	oracles     tx.ContractRelevant(id) with id = d.FileContractElement.ID -> (fd_relevant d, nil);
//	            tx.V2ContractRelevant(id) with id = d.V2FileContractElement.ID -> (gd_relevant d, nil)
//	            (the error result of the store call is not modelled: Build.v takes the relevance bit)
//	result      StateChanges{Confirmed, Revised, Successful, Failed, ConfirmedV2, RevisedV2, SuccessfulV2, RenewedV2, FailedV2}
//	            -> mkCh cConf1 cRev1 cSucc1 cFail1 cConf2 cRev2 cSucc2 cRen2 cFail2; appended elements:
//	            Confirmed: the element's ID; Revised: (ID, FileContract.RevisionNumber); ConfirmedV2: (element ID,
//	            V2FileContract.RevisionNumber); RevisedV2: (ID, V2FileContract.RevisionNumber); the others: the id
//	            error -> res: Err EInvalid for every non-nil error, Panic for a nil dereference

import (
	"fmt"
	"go/ast"
	"go/token"
	"os"
	"path/filepath"
	"regexp"
	"strings"
)

const buildMapping = `   NAME MAPPING (tools/go2coq/build.go - trusted):
   parameters: fces []consensus.FileContractElementDiff -> list fdiff; v2Fces []consensus.V2FileContractElementDiff -> list fdiff2;
     revert bool -> bool; tx UpdateStateTx and log ( *zap.Logger) have no binder (log calls: arguments evaluated, no effect)
   d : fdiff:  d.FileContractElement.ID -> fd_id d; d.FileContractElement.FileContract.RevisionNumber -> fd_cur d;
     d.Revision -> fd_rev d (nil = None; the contract it points to is known by its RevisionNumber only);
     d.Created / .Resolved / .Valid -> fd_created / fd_resolved / fd_valid d;
     c.MissedHostPayout().Cmp(c.ValidHostPayout()) >= 0, c = d.FileContractElement.FileContract or a copy of it -> fd_missed_ge d
   d : fdiff2: d.V2FileContractElement.ID -> gd_id d; d.V2FileContractElement.V2FileContract.RevisionNumber -> gd_cur d;
     d.Revision -> gd_rev d; d.Created -> gd_created d; d.Resolution -> gd_res d (nil = None;
     types.V2FileContractRenewal -> KRenewal, types.V2FileContractExpiration -> KExpiration b, types.V2StorageProof -> KProof);
     c.MissedHostValue.Cmp(c.HostOutput.Value) >= 0, c = the element's V2FileContract, where the resolution is an expiration -> b
   oracles: tx.ContractRelevant(d.FileContractElement.ID) -> (fd_relevant d, nil); tx.V2ContractRelevant(..) -> (gd_relevant d, nil)
   result: StateChanges -> changes (mkCh Confirmed Revised Successful Failed ConfirmedV2 RevisedV2 SuccessfulV2 RenewedV2 FailedV2);
     appended: Confirmed <- element ID; Revised / RevisedV2 <- (ID, contract RevisionNumber); ConfirmedV2 <- (element ID, RevisionNumber);
     the other slices <- the id; non-nil error -> Err EInvalid; nil dereference -> Panic
   for _, v := range xs { .. } -> loop_res (BuildPrelude.v) carrying the result struct`

func init() {
	outputs = append(outputs, output{
		group:  "build",
		path:   "coq/Contracts/gen/BuildGen.v",
		custom: generateBuild,
	})
}

var idOfDiff = regexp.MustCompile(`^\((fd|gd)_id (\w+)\)$`)

func buildTables() *impTables {
	tb := &impTables{
		imports: map[string]string{
			"types": "go.sia.tech/core/types", "consensus": "go.sia.tech/core/consensus",
			"zap": "go.uber.org/zap", "fmt": "fmt", "errors": "errors",
		},
		accType: "StateChanges",
		accCtor: "mkCh",
		ctors: map[string][]ctorInfo{
			"types.V2FileContractResolutionType": {
				{"*types.V2FileContractRenewal", "KRenewal", nil},
				{"*types.V2FileContractExpiration", "KExpiration", []string{"missed_ge"}},
				{"*types.V2StorageProof", "KProof", nil},
			},
		},
		conversions: map[string]skind{"types.FileContractID": sN, "uint64": sN},
		structs: map[string]map[string]string{
			"StateChanges":      {},
			"RevisedContract":   {"ID": "", "FileContract": "types.FileContract"},
			"RevisedV2Contract": {"ID": "", "V2FileContract": "types.V2FileContract"},
		},
	}
	idInj := func(x *ictx, at ast.Node, v *sval) string {
		if v.k != sN {
			fail(at, "appended value is a %s, an id is expected", v.k)
		}
		return v.t
	}
	pairInj := func(goType, idF, fcF, fcType string) func(x *ictx, at ast.Node, v *sval) string {
		return func(x *ictx, at ast.Node, v *sval) string {
			if v.k != sStruct || v.goType != goType {
				fail(at, "appended value is a %s %s, a %s is expected", v.k, v.goType, goType)
			}
			fc := v.fields[fcF]
			if fc == nil || fc.k != sStruct || fc.goType != fcType {
				fail(at, "field %s of the appended %s is not a %s", fcF, goType, fcType)
			}
			return "(" + v.fields[idF].t + ", " + fc.fields["RevisionNumber"].t + ")"
		}
	}
	tb.accFields = []accField{
		{"Confirmed", "cConf1", "types.FileContractElement", func(x *ictx, at ast.Node, v *sval) string {
			if v.k != sStruct || v.goType != "types.FileContractElement" {
				fail(at, "appended value is a %s %s, a types.FileContractElement is expected", v.k, v.goType)
			}
			return v.fields["ID"].t
		}},
		{"Revised", "cRev1", "RevisedContract", pairInj("RevisedContract", "ID", "FileContract", "types.FileContract")},
		{"Successful", "cSucc1", "types.FileContractID#succ1", idInj},
		{"Failed", "cFail1", "types.FileContractID#fail1", idInj},
		{"ConfirmedV2", "cConf2", "types.V2FileContractElement", pairInj("types.V2FileContractElement", "ID", "V2FileContract", "types.V2FileContract")},
		{"RevisedV2", "cRev2", "RevisedV2Contract", pairInj("RevisedV2Contract", "ID", "V2FileContract", "types.V2FileContract")},
		{"SuccessfulV2", "cSucc2", "types.FileContractID#succ2", idInj},
		{"RenewedV2", "cRen2", "types.FileContractID#ren2", idInj},
		{"FailedV2", "cFail2", "types.FileContractID#fail2", idInj},
	}
	fc1 := func(rev string, payoutKey string) *sval {
		v := &sval{k: sStruct, goType: "types.FileContract", fields: map[string]*sval{"RevisionNumber": nval(rev)}, attrs: map[string]string{}}
		if payoutKey != "" {
			v.attrs["payout_ge"] = payoutKey
		}
		return v
	}
	fc2 := func(rev string, d string) *sval {
		v := &sval{k: sStruct, goType: "types.V2FileContract", fields: map[string]*sval{"RevisionNumber": nval(rev)}}
		if d != "" {
			v.fields["MissedHostValue"] = &sval{k: sCur, tag: "missed_host2", key: d}
			v.fields["HostOutput"] = &sval{k: sStruct, goType: "types.SiacoinOutput", fields: map[string]*sval{"Value": {k: sCur, tag: "host_out2", key: d}}}
		}
		return v
	}
	tb.param = func(x *ictx, goType, name string) (*sval, string) {
		switch goType {
		case "UpdateStateTx":
			return &sval{k: sTx}, ""
		case "*zap.Logger":
			x.usesPkg(nil, "zap")
			return &sval{k: sLogger}, ""
		case "bool":
			return bval(name), "(" + name + " : bool)"
		case "[]consensus.FileContractElementDiff":
			x.usesPkg(nil, "consensus")
			return &sval{k: sList, t: name, goType: "consensus.FileContractElementDiff"}, "(" + name + " : list fdiff)"
		case "[]consensus.V2FileContractElementDiff":
			x.usesPkg(nil, "consensus")
			return &sval{k: sList, t: name, goType: "consensus.V2FileContractElementDiff"}, "(" + name + " : list fdiff2)"
		}
		return nil, ""
	}
	tb.elem = func(x *ictx, at ast.Node, elemType, d string) *sval {
		switch elemType {
		case "consensus.FileContractElementDiff":
			return &sval{k: sStruct, goType: elemType, fields: map[string]*sval{
				"FileContractElement": {k: sStruct, goType: "types.FileContractElement", fields: map[string]*sval{
					"ID":           nval("(fd_id " + d + ")"),
					"FileContract": fc1("(fd_cur "+d+")", "(fd_missed_ge "+d+")"),
				}},
				"Revision": {k: sOpt, t: "(fd_rev " + d + ")", goType: "types.FileContract"},
				"Created":  bval("(fd_created " + d + ")"),
				"Resolved": bval("(fd_resolved " + d + ")"),
				"Valid":    bval("(fd_valid " + d + ")"),
			}}
		case "consensus.V2FileContractElementDiff":
			return &sval{k: sStruct, goType: elemType, fields: map[string]*sval{
				"V2FileContractElement": {k: sStruct, goType: "types.V2FileContractElement", fields: map[string]*sval{
					"ID":             nval("(gd_id " + d + ")"),
					"V2FileContract": fc2("(gd_cur "+d+")", d),
				}},
				"Revision":   {k: sOpt, t: "(gd_rev " + d + ")", goType: "types.V2FileContract"},
				"Resolution": {k: sOpt, t: "(gd_res " + d + ")", goType: "types.V2FileContractResolutionType", iface: true},
				"Created":    bval("(gd_created " + d + ")"),
			}}
		}
		fail(at, "range over a slice of %s, which the model does not know", elemType)
		return nil
	}
	tb.target = func(x *ictx, at ast.Node, goType, v string) *sval {
		switch goType {
		case "types.FileContract":
			return fc1(v, "")
		case "types.V2FileContract":
			return fc2(v, "")
		}
		fail(at, "pointer to %s", goType)
		return nil
	}
	tb.zero = func(x *ictx, at ast.Node, goType string) *sval {
		switch goType {
		case "StateChanges":
			v := &sval{k: sStruct, goType: goType, fields: map[string]*sval{}}
			for _, f := range tb.accFields {
				v.fields[f.goName] = &sval{k: sList, t: "[]", goType: f.elemType}
			}
			return v
		case "RevisedContract":
			return &sval{k: sStruct, goType: goType, fields: map[string]*sval{"ID": nval("0"), "FileContract": fc1("0", "")}}
		case "RevisedV2Contract":
			return &sval{k: sStruct, goType: goType, fields: map[string]*sval{"ID": nval("0"), "V2FileContract": fc2("0", "")}}
		}
		fail(at, "zero value of %s", goType)
		return nil
	}
	tb.method = func(x *ictx, at ast.Node, recv *sval, name string, args []*sval, st *store) *sval {
		if recv.goType == "types.FileContract" && len(args) == 0 && (name == "MissedHostPayout" || name == "ValidHostPayout") {
			key, ok := recv.attrs["payout_ge"]
			if !ok {
				fail(at, "%s() of a contract whose payouts the model does not know (only the diff's own element)", name)
			}
			return &sval{k: sCur, tag: map[string]string{"MissedHostPayout": "missed_host", "ValidHostPayout": "valid_host"}[name], key: key}
		}
		fail(at, "method %s of %s is not in the method table", name, recv.goType)
		return nil
	}
	tb.oracle = func(x *ictx, at ast.Node, name string, args []*sval) []*sval {
		want := map[string]string{"ContractRelevant": "fd", "V2ContractRelevant": "gd"}[name]
		if want == "" {
			fail(at, "method %s of the update transaction is not an oracle of the model", name)
		}
		if len(args) != 1 || args[0].k != sN {
			fail(at, "%s takes one contract id", name)
		}
		m := idOfDiff.FindStringSubmatch(args[0].t)
		if m == nil || m[1] != want {
			fail(at, "%s is asked about %s: the model knows the relevance of a diff's own contract id only", name, args[0].t)
		}
		return []*sval{bval("(" + want + "_relevant " + m[2] + ")"), {k: sErr, isNil: true}}
	}
	tb.cmp = func(x *ictx, at ast.Node, a, b *sval, op token.Token, st *store) string {
		flip := map[token.Token]token.Token{token.GEQ: token.LEQ, token.LEQ: token.GEQ, token.LSS: token.GTR, token.GTR: token.LSS}
		if (a.tag == "valid_host" && b.tag == "missed_host") || (a.tag == "host_out2" && b.tag == "missed_host2") {
			a, b = b, a
			f, ok := flip[op]
			if !ok {
				return ""
			}
			op = f
		}
		if a.key != b.key {
			return ""
		}
		var ge string
		switch {
		case a.tag == "missed_host" && b.tag == "valid_host":
			ge = a.key
		case a.tag == "missed_host2" && b.tag == "host_out2":
			f := st.opts["(gd_res "+a.key+")"]
			if f == nil || !f.some || f.ctor != "KExpiration" {
				fail(at, "MissedHostValue against HostOutput.Value: the model knows this comparison only where the diff's resolution is an expiration")
			}
			ge = f.args[0]
		default:
			return ""
		}
		switch op {
		case token.GEQ:
			return ge
		case token.LSS:
			return "(negb " + ge + ")"
		}
		return ""
	}
	return tb
}

func generateBuild(repo string, o *output) (string, []string) {
	const file = "host/contracts/update.go"
	const fn = "buildContractState"
	g := parseFile(filepath.Join(repo, file))
	x := &ictx{g: g, tb: buildTables(), nvar: map[string]int{}}
	fd, ok := g.funcs[fn]
	if !ok {
		panic(unsupported{token.NoPos, fmt.Sprintf("%s: function %s not found", g.path, fn)})
	}
	st := newStore()
	var binders, names []string
	var args []*sval
	gen := regexp.MustCompile(`^(d|ch|r|a)\d+$`)
	for _, f := range fd.Type.Params.List {
		ts := exprString(f.Type)
		for _, n := range f.Names {
			name := n.Name
			if reserved[name] || gen.MatchString(name) || buildReserved[name] {
				name += "_"
			}
			v, b := x.tb.param(x, ts, name)
			if v == nil {
				fail(f, "parameter of type %s is not in the parameter table", ts)
			}
			args = append(args, v)
			if b != "" {
				binders = append(binders, b)
				names = append(names, name)
			}
		}
	}
	if fd.Type.Results == nil || fd.Type.Results.NumFields() != 2 {
		fail(fd, "%s must return (StateChanges, error)", fn)
	}
	body := x.callFunc(fd, args, st, fd, func(st *store, vals []*sval) node {
		if len(vals) != 2 || vals[1] == nil || vals[1].k != sErr {
			fail(fd, "%s must return (StateChanges, error)", fn)
		}
		if !vals[1].isNil {
			return x.leaf("Err EInvalid")
		}
		if vals[0] == nil || vals[0].k != sStruct || vals[0].goType != x.tb.accType {
			fail(fd, "%s must return (StateChanges, error)", fn)
		}
		return x.leaf("Ok " + x.accTerm(vals[0]))
	})
	var b strings.Builder
	b.WriteString("(* GENERATED by tools/go2coq (build.go, imp.go) from the current source of the repository - do not edit;\n")
	b.WriteString("   regenerated at the start of every check run (props \"gen\" entry).\n   source: " + file + ": func " + fn + "\n\n")
	b.WriteString(buildMapping + " *)\n")
	b.WriteString("From HostdBase Require Import Base.\nFrom HostdContracts Require Import Model Build BuildPrelude.\nLocal Open Scope N_scope.\n\n")
	b.WriteString("Definition " + fn + " " + strings.Join(binders, " ") + " : res changes :=\n" + render(body, "  ") + ".\n\n")
	// the hand model's argument order
	b.WriteString("(* the hand model's argument order and result type (Build.build_state revert l1 l2) *)\n")
	order := map[string]string{}
	for i, bnd := range binders {
		switch {
		case strings.HasSuffix(bnd, ": bool)"):
			order["revert"] = names[i]
		case strings.HasSuffix(bnd, ": list fdiff)"):
			order["l1"] = names[i]
		case strings.HasSuffix(bnd, ": list fdiff2)"):
			order["l2"] = names[i]
		}
	}
	if len(order) != 3 || len(binders) != 3 {
		fail(fd, "%s must have exactly one bool, one []consensus.FileContractElementDiff and one []consensus.V2FileContractElementDiff parameter", fn)
	}
	var call []string
	for _, n := range names {
		for k, v := range order {
			if v == n {
				call = append(call, k)
			}
		}
	}
	b.WriteString("Definition build_state_res (revert : bool) (l1 : list fdiff) (l2 : list fdiff2) : res changes :=\n  " + fn + " " + strings.Join(call, " ") + ".\n")
	b.WriteString("Definition build_state (revert : bool) (l1 : list fdiff) (l2 : list fdiff2) : option changes :=\n  res_opt (build_state_res revert l1 l2).\n")
	return b.String(), []string{"  " + fn + " " + strings.Join(binders, " ")}
}

var buildReserved = map[string]bool{"changes": true, "fdiff": true, "fdiff2": true, "mkCh": true, "loop_res": true, "res_opt": true, "no_changes": true}

var _ = os.Stderr
