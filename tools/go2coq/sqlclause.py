#!/usr/bin/env python3
"""tools/go2coq/sqlclause.py — parses SQL condition fragments with the clause parser of tools/sqlgen
(imported read-only) and prints their syntax trees as JSON.  stdin: a JSON list of strings;
stdout: a JSON list, one tree per string ({"error": ".."} for a fragment outside sqlgen's subset).
Used by the go2coq group "query" (filter.go): the WHERE fragments buildContractFilter assembles."""
import json, os, sys
sys.path.insert(0, os.path.join(os.path.dirname(os.path.dirname(os.path.abspath(__file__))), "sqlgen"))
import sqlgen


def tree(e):
    if isinstance(e, tuple):
        return [tree(x) for x in e]
    if isinstance(e, list):
        return [tree(x) for x in e]
    return e


out = []
for frag in json.load(sys.stdin):
    try:
        p = sqlgen.Parser(sqlgen.tokenize(frag))
        e = p.expr()
        if p.peek()[0] != "eof":
            raise sqlgen.Unsupported("SQL: trailing input %r" % (p.peek(),))
        out.append({"tree": tree(e), "nparams": p.nparams})
    except sqlgen.Unsupported as ex:
        out.append({"error": str(ex)})
    except Exception as ex:  # a parser crash is a hard error of the translator as well
        out.append({"error": "%s: %s" % (type(ex).__name__, ex)})
json.dump(out, sys.stdout)
