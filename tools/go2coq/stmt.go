package main

import (
	"fmt"
	"go/ast"
	"go/token"
	"go/types"
	"os"
	"sort"
	"strconv"
	"strings"
)

func readFile(p string) ([]byte, error) { return os.ReadFile(p) }

// ---------------------------------------------------------------- functions

func translateFunc(u *unit, fd *ast.FuncDecl, key string) *gendef {
	coqName := strings.ReplaceAll(key, ".", "_")
	c := &fctx{u: u, fd: fd, fresh: map[string]bool{}, elemWrites: map[string]int{}}
	if fd.Type.TypeParams != nil {
		fail(fd, "generic function")
	}
	if fd.Body == nil {
		fail(fd, "function without body")
	}
	sig := &fsig{}
	e := newEnv(nil)
	var binders []string
	var plist []*ast.Field
	if fd.Recv != nil { // a value receiver is the first parameter
		if len(fd.Recv.List) != 1 || len(fd.Recv.List[0].Names) != 1 {
			fail(fd, "receiver must be one named value")
		}
		plist = append(plist, fd.Recv.List[0])
	}
	plist = append(plist, fd.Type.Params.List...)
	for fi, f := range plist {
		isRecv := fd.Recv != nil && fi == 0
		if _, ok := f.Type.(*ast.Ellipsis); ok {
			fail(f, "variadic parameter")
		}
		t := c.goType(f.Type)
		if t.k == kErr || t.k == kUC {
			fail(f, "parameter of type %s", t)
		}
		if len(f.Names) == 0 {
			fail(f, "unnamed parameter")
		}
		for _, n := range f.Names {
			if !isRecv {
				sig.params = append(sig.params, t)
			}
			if n.Name == "_" {
				fail(n, "blank parameter")
			}
			if t.k == kKey {
				c.keys = append(c.keys, n.Name)
				v := c.declare(e, n, t)
				_ = v
				if len(c.keys) == 1 {
					binders = append(binders, "(uhexp : N)")
				}
				continue
			}
			v := c.declare(e, n, t)
			binders = append(binders, fmt.Sprintf("(%s : %s)", v.coq, t.coq()))
		}
	}
	if len(c.keys) != 0 && len(c.keys) != 2 {
		fail(fd, "a function must have no or exactly two types.UnlockKey parameters")
	}
	var pre []string
	if fd.Type.Results != nil {
		var rs []*ty
		var names []*ast.Ident
		for _, f := range fd.Type.Results.List {
			t := c.goType(f.Type)
			if len(f.Names) == 0 {
				rs = append(rs, t)
				names = append(names, nil)
			}
			for _, n := range f.Names {
				rs = append(rs, t)
				names = append(names, n)
			}
		}
		for i, t := range rs {
			if t.k == kErr {
				if i != len(rs)-1 {
					fail(fd, "error result that is not the last result")
				}
				sig.hasErr = true
				continue
			}
			if t.k == kKey || t.k == kUC {
				fail(fd, "result of type %s", t)
			}
			sig.results = append(sig.results, t)
			if names[i] != nil && names[i].Name != "_" {
				v := c.declare(e, names[i], t)
				pre = append(pre, fmt.Sprintf("let %s := %s in", v.coq, t.zero()))
			}
		}
	}
	if !sig.hasErr && len(sig.results) != 1 {
		fail(fd, "a function without error result must have exactly one result")
	}
	c.sig = sig
	u.sigs[key] = sig

	body := c.seq(fd.Body.List, e, func(ind string) string {
		fail(fd, "control reaches the end of the function without a return")
		return ""
	}, "  ")
	if len(c.regions) != 0 || c.noOk != 0 || c.inLoop != 0 {
		fail(fd, "internal error: unbalanced context")
	}
	var rt []string
	for _, t := range sig.results {
		rt = append(rt, t.coq())
	}
	resT := "unit"
	if len(rt) == 1 {
		resT = rt[0]
		if strings.Contains(resT, " ") {
			resT = "(" + resT + ")"
		}
	} else if len(rt) > 1 {
		resT = "(" + strings.Join(rt, " * ") + ")"
	}
	text := fmt.Sprintf("Definition %s %s : res %s :=\n%s%s.", coqName, strings.Join(binders, " "), resT, lines(pre, "  "), body)
	return &gendef{name: coqName, text: text, params: binders}
}

func lines(pre []string, ind string) string {
	var b strings.Builder
	for _, l := range pre {
		b.WriteString(ind + l + "\n")
	}
	return b.String()
}

// ---------------------------------------------------------------- statements

type cont func(ind string) string

// terminates: every path through the list ends in a return
func terminates(list []ast.Stmt) bool {
	if len(list) == 0 {
		return false
	}
	switch s := list[len(list)-1].(type) {
	case *ast.ReturnStmt:
		return true
	case *ast.BlockStmt:
		return terminates(s.List)
	case *ast.IfStmt:
		if s.Else == nil {
			return false
		}
		return terminates(s.Body.List) && terminates([]ast.Stmt{s.Else})
	case *ast.SwitchStmt:
		hasDefault := false
		for _, cl := range s.Body.List {
			cc := cl.(*ast.CaseClause)
			if cc.List == nil {
				hasDefault = true
			}
			if !terminates(cc.Body) {
				return false
			}
		}
		return hasDefault
	}
	return false
}

// seq translates a statement list followed by the continuation k into a term of type res _
func (c *fctx) seq(list []ast.Stmt, e *env, k cont, ind string) string {
	if len(list) == 0 {
		return k(ind)
	}
	rest := list[1:]
	switch s := list[0].(type) {
	case *ast.ReturnStmt:
		if len(rest) != 0 {
			fail(rest[0], "unreachable statement")
		}
		return c.ret(s, e, ind)
	case *ast.AssignStmt:
		if head, ok := c.errAssign(s, rest, e, ind); ok {
			return head + c.seq(rest[1:], e, k, ind)
		}
		pre := c.capture(func() { c.assign(s, e) })
		return lines(pre, ind) + c.seq(rest, e, k, ind)
	case *ast.DeclStmt:
		pre := c.capture(func() { c.decl(s, e) })
		return lines(pre, ind) + c.seq(rest, e, k, ind)
	case *ast.IfStmt:
		return c.ifStmt(s, rest, e, k, ind)
	case *ast.SwitchStmt:
		is := c.switchToIf(s)
		if is == nil {
			return c.seq(rest, e, k, ind)
		}
		return c.seq(append([]ast.Stmt{is}, rest...), e, k, ind)
	case *ast.RangeStmt:
		head := c.rangeStmt(s, e, ind)
		return head + c.seq(rest, e, k, ind)
	case *ast.BlockStmt:
		return c.seq(s.List, newEnv(e), func(ind string) string { return c.seq(rest, e, k, ind) }, ind)
	case *ast.EmptyStmt:
		return c.seq(rest, e, k, ind)
	}
	fail(list[0], "statement is not in the supported subset")
	return ""
}

// switchToIf rewrites a tagless switch into the equivalent if / else-if chain
func (c *fctx) switchToIf(s *ast.SwitchStmt) ast.Stmt {
	if s.Init != nil || s.Tag != nil {
		fail(s, "only the tagless switch without init statement is supported")
	}
	var clauses []*ast.CaseClause
	var def *ast.CaseClause
	for _, st := range s.Body.List {
		cc := st.(*ast.CaseClause)
		ast.Inspect(cc, func(n ast.Node) bool {
			switch n := n.(type) {
			case *ast.BranchStmt:
				fail(n, "%s is not supported", n.Tok)
			case *ast.RangeStmt, *ast.ForStmt, *ast.SwitchStmt, *ast.FuncLit:
				if n != ast.Node(s) {
					// a nested construct has its own checks
				}
			}
			return true
		})
		if cc.List == nil {
			def = cc
		} else {
			clauses = append(clauses, cc)
		}
	}
	var tail ast.Stmt
	if def != nil {
		tail = &ast.BlockStmt{Lbrace: def.Pos(), List: def.Body, Rbrace: def.End()}
	}
	for i := len(clauses) - 1; i >= 0; i-- {
		cc := clauses[i]
		cond := cc.List[0]
		for _, x := range cc.List[1:] {
			cond = &ast.BinaryExpr{X: cond, OpPos: x.Pos(), Op: token.LOR, Y: x}
		}
		tail = &ast.IfStmt{If: cc.Pos(), Cond: cond, Body: &ast.BlockStmt{Lbrace: cc.Colon, List: cc.Body, Rbrace: cc.End()}, Else: tail}
	}
	return tail
}

func elseList(s *ast.IfStmt) []ast.Stmt {
	if s.Else == nil {
		return nil
	}
	return []ast.Stmt{s.Else} // a block (own scope through seq) or another if
}

// errPattern: if err := f(args); err != nil { return zero.., err }
func (c *fctx) errPattern(s *ast.IfStmt, e *env) (*ast.CallExpr, bool) {
	as, ok := s.Init.(*ast.AssignStmt)
	if !ok || as.Tok != token.DEFINE || len(as.Lhs) != 1 || len(as.Rhs) != 1 {
		return nil, false
	}
	id, ok := as.Lhs[0].(*ast.Ident)
	call, ok2 := as.Rhs[0].(*ast.CallExpr)
	if !ok || !ok2 {
		return nil, false
	}
	fn, ok := call.Fun.(*ast.Ident)
	if !ok || e.lookup(fn.Name) != nil {
		return nil, false
	}
	if _, isFn := c.u.find(fn.Name); isFn == nil || fn.Name == "contractUnlockConditions" {
		return nil, false
	}
	c.u.translate(fn.Name, call)
	sig := c.u.sigs[fn.Name]
	if !sig.hasErr {
		return nil, false
	}
	if len(sig.results) != 0 {
		fail(call, "only functions returning just an error are supported in `if err := f(..); err != nil`")
	}
	cond, ok := s.Cond.(*ast.BinaryExpr)
	if !ok || cond.Op != token.NEQ || types.ExprString(cond.X) != id.Name || types.ExprString(cond.Y) != "nil" {
		fail(s.Cond, "the error of %s must be tested with `%s != nil`", fn.Name, id.Name)
	}
	if len(s.Body.List) != 1 {
		fail(s.Body, "the error branch must be a single `return .., %s`", id.Name)
	}
	r, ok := s.Body.List[0].(*ast.ReturnStmt)
	if !ok || len(r.Results) != len(c.sig.results)+1 || !c.sig.hasErr || types.ExprString(r.Results[len(r.Results)-1]) != id.Name {
		fail(s.Body, "the error branch must be a single `return .., %s`", id.Name)
	}
	for _, x := range r.Results[:len(r.Results)-1] {
		pre := c.capture(func() { c.expr(x, e, nil) })
		if len(pre) != 0 {
			fail(x, "result next to a propagated error must be a plain value")
		}
	}
	// the error variable must not be used in the else part
	if s.Else != nil {
		ast.Inspect(s.Else, func(n ast.Node) bool {
			if i, ok := n.(*ast.Ident); ok && i.Name == id.Name {
				fail(i, "use of the error variable outside the propagating branch")
			}
			return true
		})
	}
	return call, true
}

// errAssign: `a, b, err := f(args)` (or `=`) for a translated package function f with results
// (T1, .., Tn, error), immediately followed by `if err != nil { return zero.., err }`:
// the monadic bind `do (a, b) <- f args;`.  The error variable is not a value of the model: any
// other use of it is outside the subset (it is never declared).
func (c *fctx) errAssign(s *ast.AssignStmt, rest []ast.Stmt, e *env, ind string) (string, bool) {
	if len(s.Rhs) != 1 || len(s.Lhs) < 2 || (s.Tok != token.DEFINE && s.Tok != token.ASSIGN) {
		return "", false
	}
	call, ok := s.Rhs[0].(*ast.CallExpr)
	if !ok {
		return "", false
	}
	fn, ok := call.Fun.(*ast.Ident)
	if !ok || e.lookup(fn.Name) != nil || fn.Name == "contractUnlockConditions" {
		return "", false
	}
	if _, fd := c.u.find(fn.Name); fd == nil {
		return "", false
	}
	errID, ok := s.Lhs[len(s.Lhs)-1].(*ast.Ident)
	if !ok || errID.Name == "_" || e.lookup(errID.Name) != nil {
		fail(s, "the last result of %s must be assigned to an error variable that is tested at once", fn.Name)
	}
	c.u.translate(fn.Name, call)
	sig := c.u.sigs[fn.Name]
	if !sig.hasErr || len(sig.results) != len(s.Lhs)-1 {
		fail(s, "%s does not return %d values and an error", fn.Name, len(s.Lhs)-1)
	}
	if len(rest) == 0 {
		fail(s, "the error of %s must be tested at once with `if %s != nil { return .., %s }`", fn.Name, errID.Name, errID.Name)
	}
	is, ok := rest[0].(*ast.IfStmt)
	if !ok || is.Init != nil || is.Else != nil || len(is.Body.List) != 1 {
		fail(rest[0], "the error of %s must be tested at once with `if %s != nil { return .., %s }`", fn.Name, errID.Name, errID.Name)
	}
	cond, ok := is.Cond.(*ast.BinaryExpr)
	if !ok || cond.Op != token.NEQ || types.ExprString(cond.X) != errID.Name || types.ExprString(cond.Y) != "nil" {
		fail(is.Cond, "the error of %s must be tested with `%s != nil`", fn.Name, errID.Name)
	}
	r, ok := is.Body.List[0].(*ast.ReturnStmt)
	if !ok || !c.sig.hasErr || len(r.Results) != len(c.sig.results)+1 || types.ExprString(r.Results[len(r.Results)-1]) != errID.Name {
		fail(is.Body, "the error branch must be a single `return .., %s`", errID.Name)
	}
	for _, x := range r.Results[:len(r.Results)-1] {
		if pre := c.capture(func() { c.expr(x, e, nil) }); len(pre) != 0 {
			fail(x, "result next to a propagated error must be a plain value")
		}
	}
	var term string
	pre := c.capture(func() { term = c.callTerm(call, fn.Name, sig, e) })
	define := s.Tok == token.DEFINE
	var names []string
	for i, l := range s.Lhs[:len(s.Lhs)-1] {
		id, ok := l.(*ast.Ident)
		if !ok {
			fail(l, "target of a function result must be a variable")
		}
		names = append(names, c.bindIdent(id, sig.results[i], define, e))
	}
	pat := names[0]
	if len(names) > 1 {
		pat = "(" + strings.Join(names, ", ") + ")"
	}
	return lines(pre, ind) + ind + "do " + pat + " <- " + term + ";\n", true
}

func (c *fctx) ifStmt(s *ast.IfStmt, rest []ast.Stmt, e *env, k cont, ind string) string {
	afterIf := func(ind string) string { return c.seq(rest, e, k, ind) }
	scope := newEnv(e)
	var head string
	if s.Init != nil {
		if call, ok := c.errPattern(s, e); ok {
			fn := call.Fun.(*ast.Ident).Name
			var term string
			pre := c.capture(func() { term = c.callTerm(call, fn, c.u.sigs[fn], e) })
			head = lines(pre, ind) + ind + "do _ <- " + term + ";\n"
			return head + c.seq(elseList(s), scope, afterIf, ind)
		}
		as, ok := s.Init.(*ast.AssignStmt)
		if !ok {
			fail(s.Init, "init statement is not an assignment")
		}
		pre := c.capture(func() { c.assign(as, scope) })
		head = lines(pre, ind)
	}
	var cond val
	pre := c.capture(func() { cond = c.expr(s.Cond, scope, tBool) })
	if cond.ty.k != kBool {
		fail(s.Cond, "condition of type %s", cond.ty)
	}
	head += lines(pre, ind)

	A, B := s.Body.List, elseList(s)
	tA, tB := terminates(A), s.Else != nil && terminates(B)
	saved := copySet(c.fresh)
	switch {
	case tA && tB:
		if len(rest) != 0 {
			fail(rest[0], "unreachable statement")
		}
		a := c.seq(A, newEnv(scope), nil, ind+"  ")
		c.fresh = copySet(saved)
		b := c.seq(B, scope, nil, ind)
		return head + ifText(cond.t, a, b, ind)
	case tA:
		a := c.seq(A, newEnv(scope), nil, ind+"  ")
		c.fresh = copySet(saved)
		b := c.seq(B, scope, afterIf, ind)
		return head + ifText(cond.t, a, b, ind)
	case tB:
		b := c.seq(B, scope, nil, ind+"  ")
		c.fresh = copySet(saved)
		a := c.seq(A, newEnv(scope), afterIf, ind)
		// keep the flat shape: the terminating branch first
		return head + ifText("(negb "+cond.t+")", b, a, ind)
	}
	// both can fall through: join on the outer variables assigned in the branches
	c.nplace++
	ph := "@@JOIN" + strconv.Itoa(c.nplace) + "@@"
	reg := &region{depth: e.depth, assigned: map[int]*variable{}}
	c.regions = append(c.regions, reg)
	c.noOk++
	end := func(ind string) string { return ind + ph }
	a := c.seq(A, newEnv(scope), end, ind+"    ")
	freshA := c.fresh
	c.fresh = copySet(saved)
	b := c.seq(B, scope, end, ind+"    ")
	c.fresh = intersect(freshA, c.fresh)
	c.noOk--
	c.regions = c.regions[:len(c.regions)-1]
	pat, tuple := statePattern(reg)
	for _, v := range reg.assigned {
		c.noteAssigned(v)
	}
	a = strings.ReplaceAll(a, ph, "Ok "+tuple)
	b = strings.ReplaceAll(b, ph, "Ok "+tuple)
	txt := head + ind + "do " + strings.TrimPrefix(pat, "'") + " <- (if " + cond.t + " then\n" + a + "\n" + ind + "  else\n" + b + ");\n"
	return txt + afterIf(ind)
}

func ifText(cond, a, b, ind string) string {
	at := strings.TrimSpace(a)
	if !strings.Contains(at, "\n") {
		return ind + "if " + cond + " then " + at + " else\n" + b
	}
	return ind + "if " + cond + " then (\n" + a + "\n" + ind + ") else\n" + b
}

func copySet(m map[string]bool) map[string]bool {
	n := map[string]bool{}
	for k := range m {
		n[k] = true
	}
	return n
}

func intersect(a, b map[string]bool) map[string]bool {
	n := map[string]bool{}
	for k := range a {
		if b[k] {
			n[k] = true
		}
	}
	return n
}

// statePattern: the binder pattern and the tuple of the variables a region assigns
func statePattern(r *region) (pat, tuple string) {
	var vs []*variable
	for _, v := range r.assigned {
		vs = append(vs, v)
	}
	sort.Slice(vs, func(i, j int) bool { return vs[i].id < vs[j].id })
	switch len(vs) {
	case 0:
		return "_", "tt"
	case 1:
		return vs[0].coq, vs[0].coq
	}
	var ns []string
	for _, v := range vs {
		ns = append(ns, v.coq)
	}
	t := "(" + strings.Join(ns, ", ") + ")"
	return "'" + t, t
}

// rangeStmt: for k, v := range xs { body }  ->  do state <- for_range xs state (fun k v state => body);
func (c *fctx) rangeStmt(s *ast.RangeStmt, e *env, ind string) string {
	if s.Tok != token.DEFINE && (s.Key != nil || s.Value != nil) {
		fail(s, "range with assignment to existing variables")
	}
	ast.Inspect(s.Body, func(n ast.Node) bool {
		if b, ok := n.(*ast.BranchStmt); ok {
			fail(b, "%s is not supported", b.Tok)
		}
		return true
	})
	var xs val
	pre := c.capture(func() { xs = c.exprRead(s.X, e) })
	if xs.ty.k != kList {
		fail(s.X, "range over %s", xs.ty)
	}
	scope := newEnv(e)
	kname, vname := "_", "_"
	if id, ok := s.Key.(*ast.Ident); ok && id.Name != "_" {
		kname = c.declare(scope, id, tNat).coq
	} else if s.Key != nil && !ok {
		fail(s.Key, "range key is not an identifier")
	}
	if id, ok := s.Value.(*ast.Ident); ok && id.Name != "_" {
		vname = c.declare(scope, id, xs.ty.elem).coq
	} else if s.Value != nil && !ok {
		fail(s.Value, "range value is not an identifier")
	}
	c.nplace++
	ph := "@@LOOP" + strconv.Itoa(c.nplace) + "@@"
	reg := &region{depth: e.depth, assigned: map[int]*variable{}}
	c.regions = append(c.regions, reg)
	c.noOk++
	c.inLoop++
	before := copySet(c.fresh)
	xpath := pathOf(s.X)
	writesBefore := c.elemWrites[xpath]
	body := c.seq(s.Body.List, newEnv(scope), func(ind string) string { return ind + ph }, ind+"    ")
	if vname != "_" && xpath != "" && c.elemWrites[xpath] != writesBefore {
		// Go reads the element for the value variable at each iteration, for_range walks the initial list
		fail(s, "the loop assigns elements of %s while ranging over it with a value variable", xpath)
	}
	if len(c.fresh) != len(before) {
		fail(s, "a slice made in this function is copied inside the loop")
	}
	c.inLoop--
	c.noOk--
	c.regions = c.regions[:len(c.regions)-1]
	pat, tuple := statePattern(reg)
	for _, v := range reg.assigned {
		c.noteAssigned(v)
	}
	body = strings.ReplaceAll(body, ph, "Ok "+tuple)
	return lines(pre, ind) + ind + "do " + strings.TrimPrefix(pat, "'") + " <- for_range " + xs.t + " " + tuple + " (fun " + kname + " " + vname + " " + pat + " =>\n" + body + ");\n"
}

// ---------------------------------------------------------------- declarations and assignments

func (c *fctx) decl(s *ast.DeclStmt, e *env) {
	gd, ok := s.Decl.(*ast.GenDecl)
	if !ok || gd.Tok != token.VAR {
		fail(s, "only var declarations are supported")
	}
	for _, sp := range gd.Specs {
		vs := sp.(*ast.ValueSpec)
		if vs.Type == nil {
			fail(vs, "var without type")
		}
		t := c.goType(vs.Type)
		if t.zero() == "" {
			fail(vs, "variable of type %s", t)
		}
		if len(vs.Values) != 0 && len(vs.Values) != len(vs.Names) {
			fail(vs, "var with a multi-valued initialiser")
		}
		var vals []val
		for _, x := range vs.Values {
			v := c.expr(x, e, t)
			if !v.ty.same(t) {
				fail(x, "initialiser of type %s for %s", v.ty, t)
			}
			vals = append(vals, v)
		}
		for i, n := range vs.Names {
			if n.Name == "_" {
				continue
			}
			if _, dup := e.vars[n.Name]; dup {
				fail(n, "%s redeclared", n.Name)
			}
			init := t.zero()
			if len(vals) != 0 {
				init = vals[i].t
			}
			v := c.declare(e, n, t)
			c.pre = append(c.pre, fmt.Sprintf("let %s := %s in", v.coq, init))
		}
	}
}

// target of one left-hand side: binds or updates and returns the Coq binder name
func (c *fctx) bindIdent(id *ast.Ident, t *ty, define bool, e *env) string {
	if id.Name == "_" {
		return "_"
	}
	if t.k == kInt {
		fail(id, "untyped constant assigned without a type")
	}
	if define {
		if v, ok := e.vars[id.Name]; ok { // declared in this very scope: := assigns
			if !v.ty.same(t) {
				fail(id, "%s has type %s, assigned %s", id.Name, v.ty, t)
			}
			c.noteAssigned(v)
			c.escape(id.Name)
			return v.coq
		}
		return c.declare(e, id, t).coq
	}
	v := e.lookup(id.Name)
	if v == nil {
		fail(id, "assignment to %s, which is not a local variable", id.Name)
	}
	if !v.ty.same(t) {
		fail(id, "%s has type %s, assigned %s", id.Name, v.ty, t)
	}
	c.noteAssigned(v)
	c.escape(id.Name)
	return v.coq
}

func (c *fctx) assign(s *ast.AssignStmt, e *env) {
	if s.Tok != token.DEFINE && s.Tok != token.ASSIGN {
		fail(s, "assignment operator %s is not supported", s.Tok)
	}
	define := s.Tok == token.DEFINE
	// a, b := x.AddWithOverflow(y)
	if len(s.Lhs) == 2 && len(s.Rhs) == 1 {
		call, ok := s.Rhs[0].(*ast.CallExpr)
		var sel *ast.SelectorExpr
		if ok {
			sel, ok = call.Fun.(*ast.SelectorExpr)
		}
		if !ok {
			fail(s, "two-variable assignment from something that is not a two-valued Currency method")
		}
		r := c.exprRead(sel.X, e)
		mi, ok := methods[r.ty.k][sel.Sel.Name]
		if !ok || !mi.pair {
			fail(s, "two-variable assignment from something that is not a two-valued Currency method")
		}
		term := c.methodTerm(call, r, mi, e)
		var ids [2]*ast.Ident
		for i, l := range s.Lhs {
			id, ok := l.(*ast.Ident)
			if !ok {
				fail(l, "target of a two-valued method must be a variable")
			}
			ids[i] = id
		}
		if define && !c.anyNew(ids[:], e) {
			fail(s, "no new variables on the left of :=")
		}
		a := c.bindIdent(ids[0], mi.resTy, define, e)
		b := c.bindIdent(ids[1], tBool, define, e)
		c.pre = append(c.pre, fmt.Sprintf("let '(%s, %s) := %s in", a, b, term))
		return
	}
	if len(s.Lhs) != len(s.Rhs) {
		fail(s, "assignment of %d values to %d targets", len(s.Rhs), len(s.Lhs))
	}
	// make
	if len(s.Rhs) == 1 {
		if call, ok := s.Rhs[0].(*ast.CallExpr); ok {
			if id, ok := call.Fun.(*ast.Ident); ok && id.Name == "make" && e.lookup("make") == nil {
				if len(call.Args) != 2 || types.ExprString(call.Args[0]) != "[]types.SiacoinOutput" {
					fail(call, "only make([]types.SiacoinOutput, n) is supported")
				}
				c.u.g.usesPkg(call, "types")
				n := c.expr(call.Args[1], e, tNat)
				if n.ty.k != kNat {
					fail(call.Args[1], "length of type %s", n.ty)
				}
				c.store(s.Lhs[0], val{"(mk_outputs " + n.t + ")", tOutputs}, define, e)
				if p := pathOf(s.Lhs[0]); p != "" {
					c.fresh[p] = true
				}
				return
			}
		}
	}
	// evaluate all right-hand sides first, then assign left to right
	var vals []val
	for i, x := range s.Rhs {
		var want *ty
		if id, ok := s.Lhs[i].(*ast.Ident); ok {
			if v := e.lookup(id.Name); v != nil && !(define && e.vars[id.Name] == nil) {
				want = v.ty
			}
		} else if !define {
			c.capture(func() { want = c.exprRead(s.Lhs[i], e).ty })
		}
		v := c.expr(x, e, want)
		if len(s.Rhs) > 1 && !strings.HasPrefix(v.t, "tmp") {
			t := c.tmp()
			c.pre = append(c.pre, fmt.Sprintf("let %s := %s in", t, v.t))
			v.t = t
		}
		vals = append(vals, v)
	}
	if define {
		var ids []*ast.Ident
		for _, l := range s.Lhs {
			id, ok := l.(*ast.Ident)
			if !ok {
				fail(l, "target of := must be a variable")
			}
			ids = append(ids, id)
		}
		if !c.anyNew(ids, e) {
			fail(s, "no new variables on the left of :=")
		}
	}
	for i, l := range s.Lhs {
		c.store(l, vals[i], define, e)
	}
}

func (c *fctx) anyNew(ids []*ast.Ident, e *env) bool {
	for _, id := range ids {
		if id.Name != "_" && e.vars[id.Name] == nil {
			return true
		}
	}
	return false
}

type pathElem struct {
	field string
	index ast.Expr
	node  ast.Node
}

// store assigns v to an lvalue: a variable or a field/element path below a local variable
func (c *fctx) store(l ast.Expr, v val, define bool, e *env) {
	if id, ok := l.(*ast.Ident); ok {
		name := c.bindIdent(id, v.ty, define, e)
		if name != v.t {
			c.pre = append(c.pre, fmt.Sprintf("let %s := %s in", name, v.t))
		}
		return
	}
	if define {
		fail(l, "target of := must be a variable")
	}
	var path []pathElem
	x := l
	for {
		switch y := x.(type) {
		case *ast.SelectorExpr:
			path = append([]pathElem{{field: y.Sel.Name, node: y}}, path...)
			x = y.X
			continue
		case *ast.IndexExpr:
			path = append([]pathElem{{index: y.Index, node: y}}, path...)
			x = y.X
			continue
		case *ast.ParenExpr:
			x = y.X
			continue
		}
		break
	}
	root, ok := x.(*ast.Ident)
	if !ok {
		fail(l, "assignment target is not rooted in a local variable")
	}
	rv := e.lookup(root.Name)
	if rv == nil {
		fail(root, "assignment to %s, which is not a local variable", root.Name)
	}
	// an element write must go through a slice known to be unshared
	p := root.Name
	for _, pe := range path {
		if pe.index != nil {
			if !c.fresh[p] {
				fail(pe.node, "assignment through slice %s, which was not made with make() in this function (or has been copied since): the write could be visible through another name", p)
			}
			c.elemWrites[p]++
			break
		}
		p += "." + pe.field
	}
	// whole-slice/struct assignment below the root ends the freshness of what is overwritten
	full := root.Name
	hasIndex := false
	for _, pe := range path {
		if pe.index != nil {
			hasIndex = true
			break
		}
		full += "." + pe.field
	}
	if !hasIndex {
		save := c.inLoop
		c.inLoop = 0
		c.escape(full)
		c.inLoop = save
	}
	nt := c.update(val{rv.coq, rv.ty}, path, v, e)
	c.noteAssigned(rv)
	c.pre = append(c.pre, fmt.Sprintf("let %s := %s in", rv.coq, nt))
}

func (c *fctx) update(cur val, path []pathElem, v val, e *env) string {
	if len(path) == 0 {
		if !cur.ty.same(v.ty) {
			fail(nil, "%s: assignment of %s to a %s", c.fd.Name.Name, v.ty, cur.ty)
		}
		return v.t
	}
	pe := path[0]
	if pe.index != nil {
		if cur.ty.k != kList {
			fail(pe.node, "indexing a %s", cur.ty)
		}
		i := c.expr(pe.index, e, tNat)
		if i.ty.k != kNat {
			fail(pe.index, "index of type %s", i.ty)
		}
		t := c.tmp()
		c.pre = append(c.pre, fmt.Sprintf("do %s <- %s %s %s;", t, nthFn(cur.ty.elem), cur.t, i.t))
		inner := c.update(val{t, cur.ty.elem}, path[1:], v, e)
		return "(set_nth " + cur.t + " " + i.t + " " + inner + ")"
	}
	fi, ok := fields[cur.ty.k][pe.field]
	if !ok || fi.set == "" {
		fail(pe.node, "field %s of %s cannot be assigned", pe.field, cur.ty)
	}
	inner := c.update(val{"(" + fi.get + " " + cur.t + ")", fi.ty}, path[1:], v, e)
	return "(" + fi.set + " " + cur.t + " " + inner + ")"
}

// ---------------------------------------------------------------- return

func isErrCtor(g *gofile, x ast.Expr) (*ast.CallExpr, bool) {
	call, ok := x.(*ast.CallExpr)
	if !ok {
		return nil, false
	}
	sel, ok := call.Fun.(*ast.SelectorExpr)
	if !ok {
		return nil, false
	}
	id, ok := sel.X.(*ast.Ident)
	if !ok {
		return nil, false
	}
	q := id.Name + "." + sel.Sel.Name
	if q != "errors.New" && q != "fmt.Errorf" {
		return nil, false
	}
	g.usesPkg(x, id.Name)
	return call, true
}

func (c *fctx) ret(s *ast.ReturnStmt, e *env, ind string) string {
	want := len(c.sig.results)
	if c.sig.hasErr {
		want++
	}
	if len(s.Results) != want {
		fail(s, "return with %d values in a function with %d results (bare returns are not supported)", len(s.Results), want)
	}
	vals := s.Results
	success := true
	var errCall *ast.CallExpr
	if c.sig.hasErr {
		last := s.Results[want-1]
		vals = s.Results[:want-1]
		if id, ok := last.(*ast.Ident); ok && id.Name == "nil" && e.lookup("nil") == nil {
			success = true
		} else if call, ok := isErrCtor(c.u.g, last); ok {
			success = false
			errCall = call
		} else {
			fail(last, "the error of a return must be nil, errors.New(..) or fmt.Errorf(..)")
		}
	}
	if success && c.noOk > 0 {
		fail(s, "a successful return inside a loop or inside a branch that can fall through is not supported")
	}
	var out []val
	pre := c.capture(func() {
		for i, x := range vals {
			if id, ok := x.(*ast.Ident); ok && id.Name == "nil" && e.lookup("nil") == nil && !success &&
				(c.sig.results[i].k == kView || c.sig.results[i].k == kSectorPtr) {
				continue // nil slice / pointer next to an error
			}
			v := c.expr(x, e, c.sig.results[i])
			if !v.ty.same(c.sig.results[i]) {
				fail(x, "returned %s, expected %s", v.ty, c.sig.results[i])
			}
			out = append(out, v)
		}
		if errCall != nil {
			if len(errCall.Args) == 0 {
				fail(errCall, "error constructor without message")
			}
			if lit, ok := errCall.Args[0].(*ast.BasicLit); !ok || lit.Kind != token.STRING {
				fail(errCall.Args[0], "the message of an error must be a string literal")
			}
			for _, a := range errCall.Args[1:] {
				c.expr(a, e, nil) // evaluated for its panics only
			}
		}
	})
	if !success {
		return lines(pre, ind) + ind + "Err EInvalid"
	}
	switch len(out) {
	case 0:
		return lines(pre, ind) + ind + "Ok tt"
	case 1:
		return lines(pre, ind) + ind + "Ok " + out[0].t
	}
	var ts []string
	for _, v := range out {
		ts = append(ts, v.t)
	}
	return lines(pre, ind) + ind + "Ok (" + strings.Join(ts, ", ") + ")"
}
