package main

// dist.go — output group "funding": persist/sqlite/accounts.go distributeRHP3AccountUsage /
// distributeRHP4AccountUsage -> coq/Funding/gen/DistGen.v, over the types of the hand model
// coq/Funding/Model.v (usage6).
//
// WHAT IS TRANSLATED: the arithmetic one funding row goes through — the `distributeFunds` closure
// (pointer parameters into the usage struct, the per-row additional usage and the row's remainder;
// checked Currency arithmetic) and the sequence of its calls at the head of the loop body.  The
// loop body is cut in front of its first statement that mentions the transaction `tx`: everything
// from there on (DELETE/UPDATE of the funding row, SELECT + UPDATE of the contract row through
// setContractAccountFunding / getContract / setContractRemainingFunds / updateContractUsage /
// updateV2ContractUsage, which do their own SQL read-modify-write in other functions and files) stays
// the hand model's `distribute`; the translator only checks that this tail does not assign the three
// values the head computes.  The generated definition is the hand model's `dist`.
//
// NAME MAPPING (trusted; printed into the generated file): see distMapping.

import (
	"fmt"
	"go/ast"
	"go/token"
	"path/filepath"
	"sort"
	"strings"
)

const distMapping = `   NAME MAPPING (tools/go2coq/dist.go - trusted):
   usage accounts.Usage (RHP3) -> u : usage6: StorageRevenue -> qStorage u, IngressRevenue -> qIngress u, EgressRevenue -> qEgress u,
     RegistryRead -> qRegR u, RegistryWrite -> qRegW u, RPCRevenue -> qRpc u;
   usage proto4.Usage (RHP4) -> u : usage6: Storage -> qStorage u, Ingress -> qIngress u, Egress -> qEgress u, RPC -> qRpc u
     (qRegR / qRegW are not touched; AccountFunding / RiskedCollateral must stay untouched as well);
   var additionalUsage contracts.Usage / proto4.Usage -> the zero usage (same field names as the usage they are paired with; any other
     field must still be zero at the cut); f.Amount of the funding row -> amount : N;
   types.Currency -> N: IsZero -> =? 0, a.Cmp(b) OP 0 -> OP on N, Add / Sub -> cadd / csub (Panic on overflow / underflow);
   &x.F, *p, *p = v: pointers to local variables are followed;
   contractFunding / contractV2Funding(tx, accountID) -> the account's funding rows (not translated: SQL);
   the loop body is cut in front of the first statement that mentions tx; result: Ok (usage after the row, additional usage, remainder)`

func init() {
	outputs = append(outputs, output{
		group:  "funding",
		path:   "coq/Funding/gen/DistGen.v",
		custom: generateDist,
	})
}

type distTarget struct {
	fn, usageType, addType, fundFn string
	fields                         [][2]string // Go field -> usage6 projection
}

var distTargets = []distTarget{
	{"distributeRHP3AccountUsage", "accounts.Usage", "contracts.Usage", "contractFunding", [][2]string{
		{"StorageRevenue", "qStorage"}, {"IngressRevenue", "qIngress"}, {"EgressRevenue", "qEgress"},
		{"RegistryRead", "qRegR"}, {"RegistryWrite", "qRegW"}, {"RPCRevenue", "qRpc"}}},
	{"distributeRHP4AccountUsage", "proto4.Usage", "proto4.Usage", "contractV2Funding", [][2]string{
		{"Storage", "qStorage"}, {"Ingress", "qIngress"}, {"Egress", "qEgress"}, {"RPC", "qRpc"}}},
}

var usage6Order = []string{"qStorage", "qIngress", "qEgress", "qRegR", "qRegW", "qRpc"}

func mentionsIdent(n ast.Node, name string) bool {
	found := false
	ast.Inspect(n, func(m ast.Node) bool {
		if id, ok := m.(*ast.Ident); ok && id.Name == name {
			found = true
		}
		return !found
	})
	return found
}

func distTables(t distTarget, txName *string) *impTables {
	tb := &impTables{
		imports: map[string]string{"types": "go.sia.tech/core/types", "accounts": "go.sia.tech/hostd/v2/host/accounts",
			"contracts": "go.sia.tech/hostd/v2/host/contracts", "proto4": "go.sia.tech/core/rhp/v4", "fmt": "fmt", "zap": "go.uber.org/zap", "errors": "errors"},
		currency:    true,
		joinCalls:   true,
		externFirst: map[string]bool{t.fundFn: true},
		structs:     map[string]map[string]string{t.addType: {}},
		conversions: map[string]skind{},
	}
	usageVal := func(goType, root string) *sval {
		v := &sval{k: sStruct, goType: goType, fields: map[string]*sval{}}
		for _, f := range t.fields {
			if root == "" {
				v.fields[f[0]] = nval("0")
			} else {
				v.fields[f[0]] = nval("(" + f[1] + " " + root + ")")
			}
		}
		return v
	}
	tb.param = func(x *ictx, goType, name string) (*sval, string) {
		switch goType {
		case "*txn":
			*txName = name
			return &sval{k: sTx}, ""
		case "int64":
			return &sval{k: sOpaque}, ""
		case "*zap.Logger":
			x.usesPkg(nil, "zap")
			return &sval{k: sLogger}, ""
		case t.usageType:
			x.checkQualifiers(nil, goType)
			return usageVal(goType, "u"), "(u : usage6)"
		}
		return nil, ""
	}
	tb.zeroVar = func(x *ictx, at ast.Node, goType string) *sval {
		if goType != t.addType {
			fail(at, "variable of type %s (only the per-row additional usage, %s)", goType, t.addType)
		}
		x.checkQualifiers(at, goType)
		return usageVal(goType, "")
	}
	tb.zero = func(x *ictx, at ast.Node, goType string) *sval { return tb.zeroVar(x, at, goType) }
	tb.extern = func(x *ictx, at *ast.CallExpr, name string, args []*sval, ell bool) ([]*sval, bool) {
		if name == t.fundFn {
			if len(args) != 2 || args[0].k != sTx {
				fail(at, "%s must be given the transaction and the account", name)
			}
			return []*sval{{k: sList, t: "@funding", goType: "fundAmount"}, {k: sErr, isNil: true}}, true
		}
		return nil, false
	}
	tb.rangeNode = func(x *ictx, s *ast.RangeStmt, l *sval, sc *scope, st *store, fr *frame) (node, bool) {
		if l.goType != "fundAmount" || l.t != "@funding" {
			fail(s, "the loop must range over the rows %s returned", t.fundFn)
		}
		v, ok := s.Value.(*ast.Ident)
		if !ok || v.Name == "_" {
			fail(s, "the funding row must be the range value")
		}
		if k, ok := s.Key.(*ast.Ident); s.Key != nil && (!ok || k.Name != "_") {
			fail(s.Key, "the index variable of the loop is not supported")
		}
		cut := len(s.Body.List)
		for i, b := range s.Body.List {
			if mentionsIdent(b, *txName) {
				cut = i
				break
			}
		}
		if cut == len(s.Body.List) || cut == 0 {
			fail(s, "the loop body must start with the distribution arithmetic and go on with statements on the transaction %s", *txName)
		}
		inner := newScope(sc)
		body := st.clone()
		inner.names[v.Name] = x.newCell(body, &sval{k: sStruct, goType: "fundAmount", fields: map[string]*sval{
			"ID": {k: sOpaque}, "ContractID": {k: sOpaque}, "Amount": nval("amount")}})
		before := map[int]bool{}
		for id := range body.cells {
			before[id] = true
		}
		// the usage parameter: the one struct of the usage type that existed before the loop
		usageCell := -1
		for id, c := range st.cells {
			if c != nil && c.k == sStruct && c.goType == t.usageType {
				if usageCell >= 0 && t.usageType != t.addType {
					fail(s, "two values of type %s are live at the loop", t.usageType)
				}
				if usageCell < 0 || id < usageCell {
					usageCell = id
				}
			}
		}
		if usageCell < 0 {
			fail(s, "no usage value to distribute")
		}
		bodyScope := newScope(inner)
		fr2 := *fr
		fr2.cont = func(st *store, at ast.Node) node {
			fail(at, "continue in front of the statements on the transaction")
			return nil
		}
		fr2.ret = func(st *store, vals []*sval, at ast.Node) node {
			fail(at, "return in front of the statements on the transaction")
			return nil
		}
		n := x.exec(s.Body.List[:cut], bodyScope, body, &fr2, func(st *store) node {
			// the values the tail uses: the usage, the one new struct of the additional-usage type, the one new number
			addName, remName := "", ""
			var names []string
			for n := range bodyScope.names {
				names = append(names, n)
			}
			sort.Strings(names)
			for _, n := range names {
				c := st.cells[bodyScope.names[n]]
				switch {
				case c != nil && c.k == sStruct && c.goType == t.addType:
					if addName != "" {
						fail(s, "two additional-usage values (%s, %s) are live at the cut", addName, n)
					}
					addName = n
				case c != nil && c.k == sN:
					used := false // only a value the statements after the cut read can be the remainder
					for _, b := range s.Body.List[cut:] {
						used = used || mentionsIdent(b, n)
					}
					if !used {
						continue
					}
					if remName != "" {
						fail(s, "two Currency values (%s, %s) are live at the cut and used after it: which is the row's remainder is not known", remName, n)
					}
					remName = n
				}
			}
			if addName == "" || remName == "" {
				fail(s, "the head of the loop body must leave the additional usage and the remainder in local variables")
			}
			// the tail must not assign them (it may read them)
			var usageName string
			for n := sc; n != nil; n = n.parent {
				for name, id := range n.names {
					if id == usageCell {
						usageName = name
					}
				}
			}
			for _, b := range s.Body.List[cut:] {
				ast.Inspect(b, func(m ast.Node) bool {
					check := func(e ast.Expr, what string) {
						for {
							switch y := e.(type) {
							case *ast.SelectorExpr:
								e = y.X
								continue
							case *ast.ParenExpr:
								e = y.X
								continue
							case *ast.StarExpr:
								e = y.X
								continue
							case *ast.IndexExpr:
								e = y.X
								continue
							}
							break
						}
						if id, ok := e.(*ast.Ident); ok && (id.Name == addName || id.Name == remName || id.Name == usageName) {
							fail(m, "the statements after the cut %s %s, which the translated head computes", what, id.Name)
						}
					}
					switch y := m.(type) {
					case *ast.AssignStmt:
						for _, l := range y.Lhs {
							check(l, "assign")
						}
					case *ast.IncDecStmt:
						check(y.X, "change")
					case *ast.UnaryExpr:
						if y.Op == token.AND {
							check(y.X, "take the address of")
						}
					}
					return true
				})
			}
			rec := func(v *sval, other func(f string) string) string {
				byProj := map[string]string{}
				for _, f := range t.fields {
					fv := v.fields[f[0]]
					if fv == nil || fv.k != sN {
						fail(s, "field %s is not a number at the cut", f[0])
					}
					byProj[f[1]] = fv.t
				}
				var parts []string
				for _, p := range usage6Order {
					if tm, ok := byProj[p]; ok {
						parts = append(parts, p+" := "+tm)
					} else {
						parts = append(parts, p+" := "+other(p))
					}
				}
				return "{| " + strings.Join(parts, "; ") + " |}"
			}
			u := rec(st.cells[usageCell], func(p string) string { return "(" + p + " u)" })
			a := rec(st.cells[bodyScope.names[addName]], func(p string) string { return "0" })
			return x.leaf("Ok (" + u + ", " + a + ", " + st.cells[bodyScope.names[remName]].t + ")")
		})
		return n, true
	}
	return tb
}

func generateDist(repo string, o *output) (string, []string) {
	const file = "persist/sqlite/accounts.go"
	g := parseFile(filepath.Join(repo, file))
	var b strings.Builder
	b.WriteString("(* GENERATED by tools/go2coq (dist.go, imp.go) from the current source of the repository - do not edit;\n")
	b.WriteString("   regenerated at the start of every check run (props \"gen\" entry).\n   source: " + file + ": the head of the loop body of distributeRHP3AccountUsage / distributeRHP4AccountUsage\n   (the distributeFunds closure and its calls; the statements on the transaction that follow are the hand model's)\n\n")
	b.WriteString(distMapping + " *)\n")
	b.WriteString("From HostdBase Require Import Base.\nFrom HostdFunding Require Import Model.\nLocal Open Scope N_scope.\n\n")
	var summary []string
	for _, t := range distTargets {
		txName := ""
		x := &ictx{g: g, tb: distTables(t, &txName), nvar: map[string]int{}}
		fd, ok := g.funcs[t.fn]
		if !ok {
			panic(unsupported{token.NoPos, fmt.Sprintf("%s: function %s not found", g.path, t.fn)})
		}
		var args []*sval
		nUsage := 0
		for _, f := range fd.Type.Params.List {
			ts := exprString(f.Type)
			for _, n := range f.Names {
				v, bnd := x.tb.param(x, ts, n.Name)
				if v == nil {
					fail(f, "parameter of type %s is not in the parameter table", ts)
				}
				if bnd != "" {
					nUsage++
				}
				args = append(args, v)
			}
		}
		if nUsage != 1 || txName == "" {
			fail(fd, "%s must have the transaction and exactly one %s parameter", t.fn, t.usageType)
		}
		body := x.callFunc(fd, args, newStore(), fd, func(st *store, vals []*sval) node {
			fail(fd, "%s returns in front of the loop over the funding rows", t.fn)
			return nil
		})
		b.WriteString("(* " + t.fn + ": one funding row of [amount] *)\n")
		b.WriteString("Definition " + t.fn + "_row (u : usage6) (amount : N) : res (usage6 * usage6 * N) :=\n" + render(body, "  ") + ".\n\n")
		summary = append(summary, "  "+t.fn+"_row (u : usage6) (amount : N)")
	}
	return b.String(), summary
}
