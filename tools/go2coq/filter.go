package main

// filter.go — output group "query": persist/sqlite/contracts.go buildContractFilter /
// buildV2ContractFilter -> coq/Query/gen/FilterGen.v, over the types of the hand model
// coq/Query/Model.v (filter, row).  The Go code assembles the WHERE clause at run time
// (`if len(filter.Statuses) != 0 { whereClause = append(..) .. }`); the builder is executed
// symbolically (imp.go, with joining of plain ifs) and the SQL text of every fragment it can
// append goes through the clause parser of tools/sqlgen (sqlclause.py), so that the result is,
// per path of the builder, the predicate the assembled statement evaluates on a row — or the
// builder's own error.
//
// NAME MAPPING (trusted; printed into the generated file): see filterMapping.

import (
	"bytes"
	"encoding/json"
	"fmt"
	"go/ast"
	"go/token"
	"os"
	"os/exec"
	"path/filepath"
	"regexp"
	"strconv"
	"strings"
)

const filterMapping = `   NAME MAPPING (tools/go2coq/filter.go - trusted):
   parameter filter contracts.ContractFilter / contracts.V2ContractFilter -> f : filter:
     Statuses -> f_statuses f, ContractIDs -> f_ids f, RenewedFrom -> f_from f, RenewedTo -> f_to f, RenterKey -> f_renters f,
     MinNegotiationHeight / MaxNegotiationHeight -> f_min_neg / f_max_neg f, MinExpirationHeight / MaxExpirationHeight -> f_min_exp / f_max_exp f
     (uint64 comparisons -> <? =? on N; len(xs) != 0 -> nonempty xs)
   table functions: queryPlaceHolders(len(xs)) -> one placeholder per element of xs; queryArgs(xs) -> the elements of xs as arguments;
     encode(v) of an id / public key -> the argument that equals exactly the stored encoding of v; strings.Join(clauses, " AND ") -> conjunction
   columns (SELECT of Store.Contracts / Store.V2Contracts): c.contract_status -> r_status r, c.contract_id -> r_id r,
     rf.contract_id -> r_from r (LEFT JOIN: NULL = None), rt.contract_id -> r_to r (LEFT JOIN), r.public_key -> r_renter r,
     c.negotiation_height -> r_neg r, v1 c.window_start / v2 c.expiration_height -> r_exp r
   SQL (syntax tree from tools/sqlgen's clause parser): x IN (args of xs) -> mem x xs (mem_opt for a nullable column: NULL IN (..) is not true);
     x BETWEEN a AND b -> (a <=? x) && (x <=? b); x >= a -> a <=? x; x <= a -> x <=? a; AND OR NOT -> && || negb
   buildOrderBy / buildV2OrderBy: filter.SortDesc -> f_desc f; filter.SortField is known to the model as f_sort f : sortf, the harness' reading of the
     field name ("status" -> SortStatus, "negotiationHeight" -> SortNeg, every other string -> SortExp): SortField == c -> sortf_eqb (f_sort f) K
     for the two constants of host/contracts (values read from its source) with these two values, no other comparison is translatable;
     ORDER BY <column> ASC|DESC -> (SortStatus | SortNeg | SortExp by the column table, descending?)
   result: ("", nil, nil) -> the predicate true; ("WHERE " + join, args, nil) -> the conjunction of the fragments, every placeholder bound to
     the argument appended for it (checked: same guard, same list, in order); a non-nil error -> Err EInvalid`

func init() {
	outputs = append(outputs, output{
		group:  "query",
		path:   "coq/Query/gen/FilterGen.v",
		custom: generateFilter,
	})
}

type colInfo struct {
	term     string
	nullable bool
	ty       string // "status", "id", "key", "height"
}

func filterColumns(v2 bool) map[string]colInfo {
	m := map[string]colInfo{
		"c.contract_status":    {"(r_status r)", false, "status"},
		"c.contract_id":        {"(r_id r)", false, "id"},
		"rf.contract_id":       {"(r_from r)", true, "id"},
		"rt.contract_id":       {"(r_to r)", true, "id"},
		"r.public_key":         {"(r_renter r)", false, "key"},
		"c.negotiation_height": {"(r_neg r)", false, "height"},
	}
	if v2 {
		m["c.expiration_height"] = colInfo{"(r_exp r)", false, "height"}
	} else {
		m["c.window_start"] = colInfo{"(r_exp r)", false, "height"}
	}
	return m
}

func filterTables(filterType string) *impTables {
	tb := &impTables{
		imports:  map[string]string{"contracts": "go.sia.tech/hostd/v2/host/contracts", "errors": "errors", "fmt": "fmt", "strings": "strings"},
		mergeIfs: true,
		structs:  map[string]map[string]string{},
	}
	list := func(t, ty string) *sval { return &sval{k: sList, t: t, goType: ty} }
	tb.param = func(x *ictx, goType, name string) (*sval, string) {
		if goType != filterType {
			return nil, ""
		}
		x.usesPkg(nil, "contracts")
		return &sval{k: sStruct, goType: goType, fields: map[string]*sval{
			"Statuses": list("(f_statuses f)", "status"), "ContractIDs": list("(f_ids f)", "id"),
			"RenewedFrom": list("(f_from f)", "id"), "RenewedTo": list("(f_to f)", "id"), "RenterKey": list("(f_renters f)", "key"),
			"MinNegotiationHeight": nval("(f_min_neg f)"), "MaxNegotiationHeight": nval("(f_max_neg f)"),
			"MinExpirationHeight": nval("(f_min_exp f)"), "MaxExpirationHeight": nval("(f_max_exp f)"),
			"SortDesc": bval("(f_desc f)"),
			// the harness maps the field name to sortf: "status" -> SortStatus, "negotiationHeight" -> SortNeg, anything else -> SortExp
			"SortField": {k: sEnum, t: "(f_sort f)", goType: "sortf_eqb", attrs: map[string]string{"status": "SortStatus", "negotiationHeight": "SortNeg"}},
		}}, "(f : filter)"
	}
	tb.zeroVar = func(x *ictx, at ast.Node, goType string) *sval {
		switch goType {
		case "[]string":
			return &sval{k: sGList, goType: "string"}
		case "[]any", "[]interface{}":
			return &sval{k: sGList, goType: "any"}
		case "string":
			return &sval{k: sStr}
		}
		fail(at, "variable of type %s", goType)
		return nil
	}
	tb.extern = func(x *ictx, at *ast.CallExpr, name string, args []*sval, ell bool) ([]*sval, bool) {
		switch name {
		case "queryPlaceHolders":
			if len(args) != 1 || args[0].k != sLen || args[0].t == "" {
				fail(at, "queryPlaceHolders must be given len(xs) of a list of the filter")
			}
			return []*sval{{k: sStr, parts: []strPart{{ph: &sval{k: sList, t: args[0].t}}}}}, true
		case "queryArgs":
			if len(args) != 1 || args[0].k != sList || args[0].goType != "status" {
				fail(at, "queryArgs is only known on the filter's Statuses (bound as stored)")
			}
			return []*sval{{k: sGroup, t: args[0].t, goType: args[0].goType, via: "queryArgs"}}, true
		case "strings.Join":
			if len(args) != 2 || args[0].k != sGList || args[0].goType != "string" || args[1].k != sStr || len(args[1].parts) != 1 || args[1].parts[0].ph != nil || args[1].parts[0].join != nil {
				fail(at, "strings.Join must be given the assembled clauses and a literal separator")
			}
			return []*sval{{k: sStr, parts: []strPart{{join: args[0].clone(), sep: args[1].parts[0].lit}}}}, true
		case "append":
			l := args[0].clone()
			for i, a := range args[1:] {
				switch {
				case l.goType == "string" && a.k == sStr && !ell:
					l.items = append(l.items, gitem{guard: "true", str: a.clone()})
				case l.goType == "any" && a.k == sGroup && ell && len(args) == 2:
					l.items = append(l.items, gitem{guard: "true", group: a.clone()})
				case l.goType == "any" && a.k == sN && !ell:
					l.items = append(l.items, gitem{guard: "true", scalar: a.clone()})
				default:
					fail(at.Args[i+1], "append of a %s to the assembled %s slice", a.k, l.goType)
				}
			}
			return []*sval{l}, true
		}
		return nil, false
	}
	// for _, value := range filter.Xs { params = append(params, encode(value)) }
	tb.rangeHook = func(x *ictx, s *ast.RangeStmt, l *sval, sc *scope, st *store) bool {
		bad := func() {
			fail(s, "a loop over a list of the filter must be `for _, v := range xs { params = append(params, encode(v)) }`")
		}
		if l.goType != "id" && l.goType != "key" {
			fail(s, "only the id and key lists of the filter go through encode")
		}
		v, ok := s.Value.(*ast.Ident)
		if !ok || v.Name == "_" || len(s.Body.List) != 1 {
			bad()
		}
		if kx, ok := s.Key.(*ast.Ident); s.Key != nil && (!ok || kx.Name != "_") {
			bad()
		}
		as, ok := s.Body.List[0].(*ast.AssignStmt)
		if !ok || as.Tok != token.ASSIGN || len(as.Lhs) != 1 || len(as.Rhs) != 1 {
			bad()
		}
		dst, ok := as.Lhs[0].(*ast.Ident)
		call, ok2 := as.Rhs[0].(*ast.CallExpr)
		if !ok || !ok2 || len(call.Args) != 2 || call.Ellipsis != token.NoPos {
			bad()
		}
		if fn, ok := call.Fun.(*ast.Ident); !ok || fn.Name != "append" {
			bad()
		}
		if src, ok := call.Args[0].(*ast.Ident); !ok || src.Name != dst.Name {
			bad()
		}
		enc, ok := call.Args[1].(*ast.CallExpr)
		if !ok || len(enc.Args) != 1 {
			bad()
		}
		if fn, ok := enc.Fun.(*ast.Ident); !ok || fn.Name != "encode" {
			bad()
		}
		if a, ok := enc.Args[0].(*ast.Ident); !ok || a.Name != v.Name {
			bad()
		}
		for _, n := range []string{"append", "encode", v.Name} {
			if _, shadow := sc.lookup(n); shadow && n != v.Name {
				bad()
			}
		}
		c, ok := sc.lookup(dst.Name)
		if !ok || st.cells[c] == nil || st.cells[c].k != sGList || st.cells[c].goType != "any" {
			bad()
		}
		st.cells[c].items = append(st.cells[c].items, gitem{guard: "true", group: &sval{k: sGroup, t: l.t, goType: l.goType, via: "encode"}})
		return true
	}
	tb.conversions = map[string]skind{}
	// string constants of host/contracts, read from the repository's current source
	tb.constant = func(x *ictx, at ast.Node, q string) *sval {
		if !strings.HasPrefix(q, "contracts.") {
			return nil
		}
		if contractsConsts == nil {
			contractsConsts = map[string]string{}
			dir := filepath.Join(filepath.Dir(filepath.Dir(filepath.Dir(x.g.path))), "host", "contracts")
			ents, _ := os.ReadDir(dir)
			for _, ent := range ents {
				if !strings.HasSuffix(ent.Name(), ".go") || strings.HasSuffix(ent.Name(), "_test.go") {
					continue
				}
				cg := parseFile(filepath.Join(dir, ent.Name()))
				for _, d := range cg.f.Decls {
					gd, ok := d.(*ast.GenDecl)
					if !ok || gd.Tok != token.CONST {
						continue
					}
					for _, sp := range gd.Specs {
						vs := sp.(*ast.ValueSpec)
						for i, n := range vs.Names {
							if i < len(vs.Values) {
								if lit, ok := vs.Values[i].(*ast.BasicLit); ok && lit.Kind == token.STRING && vs.Type == nil {
									if u, err := strconv.Unquote(lit.Value); err == nil {
										contractsConsts[n.Name] = u
									}
								}
							}
						}
					}
				}
			}
		}
		v, ok := contractsConsts[strings.TrimPrefix(q, "contracts.")]
		if !ok {
			fail(at, "%s is not an untyped string constant of host/contracts", q)
		}
		return &sval{k: sStr, parts: []strPart{{lit: v}}}
	}
	return tb
}

var contractsConsts map[string]string

var orderRe = regexp.MustCompile(`^ORDER BY (\w+\.\w+) (ASC|DESC)$`)

// orderLeaf: the sort column and direction of a returned ORDER BY clause
func orderLeaf(at ast.Node, q *sval, cols map[string]colInfo) string {
	if q.k != sStr {
		fail(at, "the result must be the ORDER BY clause")
	}
	var text strings.Builder
	for _, p := range q.parts {
		if p.ph != nil || p.join != nil {
			fail(at, "ORDER BY clause with placeholders")
		}
		text.WriteString(p.lit)
	}
	m := orderRe.FindStringSubmatch(text.String())
	if m == nil {
		fail(at, "ORDER BY clause %q is not `ORDER BY <alias>.<column> ASC|DESC`", text.String())
	}
	ci, ok := cols[m[1]]
	if !ok {
		fail(at, "ORDER BY: column %s is not in the column table of this query", m[1])
	}
	key := map[string]string{"(r_status r)": "SortStatus", "(r_neg r)": "SortNeg", "(r_exp r)": "SortExp"}[ci.term]
	if key == "" {
		fail(at, "ORDER BY: the model has no sort key for column %s", m[1])
	}
	return "(" + key + ", " + map[string]string{"ASC": "false", "DESC": "true"}[m[2]] + ")"
}

// ---------------------------------------------------------------- SQL fragments

var sqlCache = map[string]map[string]any{}

func parseSQL(at ast.Node, frag string) (any, int) {
	if r, ok := sqlCache[frag]; ok {
		return r["tree"], int(r["nparams"].(float64))
	}
	root := os.Getenv("GO2COQ_TOOLS")
	if root == "" {
		root = filepath.Join(toolRoot, "tools", "go2coq")
	}
	in, _ := json.Marshal([]string{frag})
	cmd := exec.Command("python3", filepath.Join(root, "sqlclause.py"))
	cmd.Stdin = bytes.NewReader(in)
	var out, errb bytes.Buffer
	cmd.Stdout, cmd.Stderr = &out, &errb
	if err := cmd.Run(); err != nil {
		fail(at, "tools/go2coq/sqlclause.py failed: %v: %s", err, errb.String())
	}
	var res []map[string]any
	if err := json.Unmarshal(out.Bytes(), &res); err != nil || len(res) != 1 {
		fail(at, "tools/go2coq/sqlclause.py: unexpected output %q", out.String())
	}
	if e, ok := res[0]["error"]; ok {
		fail(at, "SQL fragment %q: %v", frag, e)
	}
	sqlCache[frag] = res[0]
	return res[0]["tree"], int(res[0]["nparams"].(float64))
}

var toolRoot = "/verif"

type boundArg struct {
	group *sval // variadic: the elements of a model list
	n     *sval // one number
}

func sqlTerm(at ast.Node, e any, cols map[string]colInfo, args []boundArg) string {
	l, ok := e.([]any)
	if !ok || len(l) == 0 {
		fail(at, "SQL: unexpected syntax tree %v", e)
	}
	col := func(c any) colInfo {
		cl, ok := c.([]any)
		if !ok || len(cl) != 3 || cl[0] != "col" || cl[1] == nil {
			fail(at, "SQL: a qualified column is expected, found %v", c)
		}
		name := cl[1].(string) + "." + cl[2].(string)
		ci, ok := cols[name]
		if !ok {
			fail(at, "SQL: column %s is not in the column table of this query", name)
		}
		return ci
	}
	param := func(p any) boundArg {
		pl, ok := p.([]any)
		if !ok || len(pl) != 2 || pl[0] != "param" {
			fail(at, "SQL: a placeholder is expected, found %v", p)
		}
		i := int(pl[1].(float64))
		if i < 1 || i > len(args) {
			fail(at, "SQL: placeholder %d has no argument", i)
		}
		return args[i-1]
	}
	num := func(c colInfo, p any) string {
		a := param(p)
		if a.n == nil || c.ty != "height" || c.nullable {
			fail(at, "SQL: comparison of column %s with %v is outside the table (a height column against one number)", c.term, p)
		}
		return a.n.t
	}
	switch l[0] {
	case "and":
		return "(" + sqlTerm(at, l[1], cols, args) + " && " + sqlTerm(at, l[2], cols, args) + ")"
	case "or":
		return "(" + sqlTerm(at, l[1], cols, args) + " || " + sqlTerm(at, l[2], cols, args) + ")"
	case "not":
		return "(negb " + sqlTerm(at, l[1], cols, args) + ")"
	case "in":
		c := col(l[1])
		items := l[2].([]any)
		if len(items) != 1 {
			fail(at, "SQL: IN with a fixed number of items")
		}
		a := param(items[0])
		if a.group == nil {
			fail(at, "SQL: the items of IN must be the placeholders of one list of the filter")
		}
		want := map[string]string{"status": "queryArgs", "id": "encode", "key": "encode"}[c.ty]
		if a.group.goType != c.ty || a.group.via != want {
			fail(at, "SQL: column %s (%s) is compared with the %s list %s bound through %s", c.term, c.ty, a.group.goType, a.group.t, a.group.via)
		}
		if c.nullable {
			return "(mem_opt " + c.term + " " + a.group.t + ")"
		}
		return "(mem " + c.term + " " + a.group.t + ")"
	case "between":
		c := col(l[1])
		return "((" + num(c, l[2]) + " <=? " + c.term + ") && (" + c.term + " <=? " + num(c, l[3]) + "))"
	case "cmp":
		c := col(l[2])
		p := num(c, l[3])
		switch l[1] {
		case "Cge":
			return "(" + p + " <=? " + c.term + ")"
		case "Cle":
			return "(" + c.term + " <=? " + p + ")"
		case "Cgt":
			return "(" + p + " <? " + c.term + ")"
		case "Clt":
			return "(" + c.term + " <? " + p + ")"
		case "Ceq":
			return "(" + c.term + " =? " + p + ")"
		}
	}
	fail(at, "SQL: %v is outside the fragment the filter table knows", l[0])
	return ""
}

// predicate of a returned (query, args): conjunction of the guarded fragments
func filterPredicate(at ast.Node, q, params *sval, cols map[string]colInfo) string {
	empty := func(v *sval) bool {
		return v.k == sStr && (len(v.parts) == 0 || (len(v.parts) == 1 && v.parts[0].ph == nil && v.parts[0].join == nil && v.parts[0].lit == ""))
	}
	if q.k != sStr {
		fail(at, "the first result must be the WHERE clause")
	}
	if empty(q) {
		if !(params.k == sErr && params.isNil) && !(params.k == sGList && len(params.items) == 0) {
			fail(at, "an empty clause returned together with arguments")
		}
		return "true"
	}
	if len(q.parts) != 2 || q.parts[0].lit != "WHERE " || q.parts[1].join == nil || q.parts[1].sep != " AND " {
		fail(at, "the clause must be \"WHERE \" + strings.Join(clauses, \" AND \"), found %s", q)
	}
	if params.k != sGList || params.goType != "any" {
		fail(at, "the second result must be the assembled argument slice")
	}
	rest := params.items
	var conj []string
	for _, it := range q.parts[1].join.items {
		var text strings.Builder
		var args []boundArg
		take := func() gitem {
			if len(rest) == 0 {
				fail(at, "fragment %s has a placeholder without argument", it.str)
			}
			a := rest[0]
			rest = rest[1:]
			if a.guard != it.guard {
				fail(at, "fragment %s is appended when %s, its argument %s when %s", it.str, it.guard, a, a.guard)
			}
			return a
		}
		for _, p := range it.str.parts {
			switch {
			case p.ph != nil:
				a := take()
				if a.group == nil || a.group.t != p.ph.t {
					fail(at, "fragment %s has one placeholder per element of %s, the arguments appended for it are %s", it.str, p.ph.t, a)
				}
				text.WriteString("?")
				args = append(args, boundArg{group: a.group})
			case p.join != nil:
				fail(at, "nested strings.Join")
			default:
				for _, ch := range p.lit {
					if ch == '?' {
						a := take()
						if a.scalar == nil {
							fail(at, "fragment %s: a single placeholder is given %s", it.str, a)
						}
						args = append(args, boundArg{n: a.scalar})
					}
				}
				text.WriteString(p.lit)
			}
		}
		tree, np := parseSQL(at, text.String())
		if np != len(args) {
			fail(at, "fragment %q: %d placeholders, %d arguments", text.String(), np, len(args))
		}
		t := sqlTerm(at, tree, cols, args)
		if it.guard != "true" {
			t = "(implb " + it.guard + " " + t + ")"
		}
		conj = append(conj, t)
	}
	if len(rest) != 0 {
		fail(at, "%d argument(s) without placeholder, first %s", len(rest), rest[0])
	}
	if len(conj) == 0 {
		fail(at, "WHERE without a fragment")
	}
	return strings.Join(conj, " && ")
}

func generateFilter(repo string, o *output) (string, []string) {
	const file = "persist/sqlite/contracts.go"
	if wd, err := os.Getwd(); err == nil {
		if _, err := os.Stat(filepath.Join(wd, "tools", "go2coq", "sqlclause.py")); err == nil {
			toolRoot = wd
		}
	}
	g := parseFile(filepath.Join(repo, file))
	var b strings.Builder
	b.WriteString("(* GENERATED by tools/go2coq (filter.go, imp.go, sqlclause.py -> tools/sqlgen's clause parser) from the current source of\n")
	b.WriteString("   the repository - do not edit; regenerated at the start of every check run (props \"gen\" entry).\n   source: " + file + ": func buildContractFilter, buildV2ContractFilter, buildOrderBy, buildV2OrderBy\n\n")
	b.WriteString(filterMapping + " *)\n")
	b.WriteString("From HostdBase Require Import Base.\nFrom HostdQuery Require Import Model FilterPrelude.\nLocal Open Scope N_scope.\n\n")
	var summary []string
	for _, t := range []struct {
		fn, ty string
		v2     bool
	}{{"buildContractFilter", "contracts.ContractFilter", false}, {"buildV2ContractFilter", "contracts.V2ContractFilter", true}} {
		x := &ictx{g: g, tb: filterTables(t.ty), nvar: map[string]int{}}
		fd, ok := g.funcs[t.fn]
		if !ok {
			panic(unsupported{token.NoPos, fmt.Sprintf("%s: function %s not found", g.path, t.fn)})
		}
		if fd.Type.Params.NumFields() != 1 || fd.Type.Results == nil || fd.Type.Results.NumFields() != 3 {
			fail(fd, "%s must be func(filter) (string, []any, error)", t.fn)
		}
		f := fd.Type.Params.List[0]
		v, _ := x.tb.param(x, exprString(f.Type), "f")
		if v == nil {
			fail(f, "parameter of type %s, %s is expected", exprString(f.Type), t.ty)
		}
		cols := filterColumns(t.v2)
		st := newStore()
		body := x.callFunc(fd, []*sval{v}, st, fd, func(st *store, vals []*sval) node {
			if len(vals) != 3 || vals[2] == nil || vals[2].k != sErr {
				fail(fd, "%s must return (string, []any, error)", t.fn)
			}
			if !vals[2].isNil {
				return x.leaf("Err EInvalid")
			}
			return x.leaf("Ok (fun r : row => " + filterPredicate(fd, vals[0], vals[1], cols) + ")")
		})
		b.WriteString("Definition " + t.fn + " (f : filter) : res (row -> bool) :=\n" + render(body, "  ") + ".\n\n")
		summary = append(summary, "  "+t.fn+" (f : filter)")
	}
	for _, t := range []struct {
		fn, ty string
		v2     bool
	}{{"buildOrderBy", "contracts.ContractFilter", false}, {"buildV2OrderBy", "contracts.V2ContractFilter", true}} {
		x := &ictx{g: g, tb: filterTables(t.ty), nvar: map[string]int{}}
		fd, ok := g.funcs[t.fn]
		if !ok {
			panic(unsupported{token.NoPos, fmt.Sprintf("%s: function %s not found", g.path, t.fn)})
		}
		if fd.Type.Params.NumFields() != 1 || fd.Type.Results == nil || fd.Type.Results.NumFields() != 1 {
			fail(fd, "%s must be func(filter) string", t.fn)
		}
		f := fd.Type.Params.List[0]
		v, _ := x.tb.param(x, exprString(f.Type), "f")
		if v == nil {
			fail(f, "parameter of type %s, %s is expected", exprString(f.Type), t.ty)
		}
		cols := filterColumns(t.v2)
		body := x.callFunc(fd, []*sval{v}, newStore(), fd, func(st *store, vals []*sval) node {
			if len(vals) != 1 || vals[0] == nil {
				fail(fd, "%s must return a string", t.fn)
			}
			return x.leaf(orderLeaf(fd, vals[0], cols))
		})
		b.WriteString("(* sort key (as the model names the three sortable columns) and descending? *)\nDefinition " + t.fn + " (f : filter) : sortf * bool :=\n" + render(body, "  ") + ".\n\n")
		summary = append(summary, "  "+t.fn+" (f : filter)")
	}
	b.WriteString("Definition order_gen (v : ver) (f : filter) : sortf * bool :=\n  match v with V1 => buildOrderBy f | V2 => buildV2OrderBy f end.\n\n")
	b.WriteString("(* the builder of Store.Contracts (V1) / Store.V2Contracts (V2) *)\n")
	b.WriteString("Definition where_gen (v : ver) (f : filter) : res (row -> bool) :=\n  match v with V1 => buildContractFilter f | V2 => buildV2ContractFilter f end.\n")
	b.WriteString("(* the row predicate of the assembled statement, and the builder's own refusal *)\n")
	b.WriteString("Definition filter_gen (v : ver) (f : filter) (r : row) : bool :=\n  match where_gen v f with Ok p => p r | _ => false end.\n")
	b.WriteString("Definition rejected_gen (v : ver) (f : filter) : bool :=\n  match where_gen v f with Ok _ => false | _ => true end.\n")
	return b.String(), summary
}
