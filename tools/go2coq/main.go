// go2coq — translator from a small, documented subset of Go to Gallina (Coq 8.16), used to
// regenerate the C07/C12 validator models from hostd's source on every check run.
//
//	go run tools/go2coq/main.go tools/go2coq/tables.go tools/go2coq/expr.go tools/go2coq/stmt.go [-root DIR] [-only revision,formation,mdm]
//	(further groups: add imp.go build.go [filter.go], see FURTHER GROUPS below)
//
// reads  $VERIF_REPO/rhp/contracts.go, $VERIF_REPO/rhp/v2/contracts.go, $VERIF_REPO/rhp/v3/contracts.go,
//
//	$VERIF_REPO/rhp/v3/execute.go (the six programData accessors)
//
// writes DIR/coq/Revision/gen/RevisionGen.v, DIR/coq/Formation/gen/FormationGen.v and
//
//	DIR/coq/MDM/gen/MDMGen.v (DIR = /verif); a file is only rewritten when its text changes, and is
//	left as it is when its sources are outside the subset (exit code 2).
//
// SUPPORTED SUBSET (anything else is a hard error "go2coq: ERROR: file:line:col: ...", exit 2)
//
//   - package-level functions whose parameters and results have the types of the TYPE TABLE
//     (tables.go); a function with a trailing `error` result becomes `res (T1 * ... * Tn)`
//     (`res unit` if it returns only the error), one without becomes `res T`;
//     named results are zero-initialised locals; a bare `return` is not supported.
//   - statements: `return`; `x := e`, `x = e`, `a, b := e1, e2` (parallel), `a, b := m(...)` for
//     the two-valued Currency methods; `var x, y T`, `var x T = e`; assignment to a field path of
//     a local struct value (`r.F = e`, `r.F[i].G = e`; the element form only through a slice that
//     was made with `make` in this function and has not been copied since); `if [init;] c {..}
//     [else if ..] [else {..}]`; tagless `switch { case c[, c]: .. default: .. }` without
//     fallthrough/break; `for i := range xs`, `for _, o := range xs`, `for i, o := range xs`
//     without break/continue/successful return inside (the loop becomes GenPrelude.for_range
//     carrying the tuple of outer variables assigned in the body); nested blocks;
//     `if err := f(..); err != nil { return zero.., err }` for a translated f returning only an
//     error (monadic bind); `a, b, err := f(..)` followed at once by
//     `if err != nil { return zero.., err }` for a translated f returning values and an error.
//   - an `if`/`switch` whose branches can fall through is joined on the tuple of outer
//     variables its branches assign; a successful `return` inside such a branch is not supported.
//   - expressions: identifiers, field selection, `xs[i]` (Panic when out of range), `len`,
//     `uint64(x)` on a uint64, `!`, `&&`, `||` (short-circuit preserved: an operand that can panic
//     is only evaluated when Go evaluates it), `== != < <= > >=` on uint64/int/Currency-by-value/
//     Address/Hash256, uint64 `+ - *` (wrapping), int `+`, the METHOD TABLE, the CONSTANT TABLE,
//     `types.Hash256{}`, `types.FileContractRevision{}` (zero value), calls of other functions of
//     the same package that are themselves in the subset (translated on demand; a listed function
//     or a helper is looked up in the target file first, then in the other non-test files of the
//     package), calls `x.m(..)` of a value-receiver method of x's own local type (programData),
//     `contractUnlockConditions(hostKey, renterKey).UnlockHash()` with exactly the function's two
//     types.UnlockKey parameters in that order (-> the oracle parameter `uhexp`; the definition of
//     contractUnlockConditions in the package must be the expected one), or that helper written out:
//     `types.UnlockConditions{PublicKeys: []types.UnlockKey{renterKey, hostKey}, SignaturesRequired: 2}`,
//     `x.Cmp(y) OP 0` (only in this shape), `errors.New("..")` / `fmt.Errorf("..", args..)` as the
//     error of a `return` (-> Err EInvalid; the arguments are still evaluated, they can panic).
//   - MDM output only (methods with a value receiver of type programData, which becomes the first
//     parameter): `uint64(len(pd))`, `pd[lo:hi]` / `pd[lo:]` on the program data (Go's slice bounds
//     check, Panic), `(*[rhp2.SectorSize]byte)(s)`, `*(*T)(s)` for T in types.Hash256 / Specifier /
//     Signature, `binary.LittleEndian.Uint64(s)` (each Panic when s is too short), the constant
//     rhp2.SectorSize, `var k types.UnlockKey; k.Algorithm = ..; k.Key = ..`, `nil` next to an error.
//   - evaluation order: every sub-expression that can panic is bound (`do tmp <- ..`) in Go's
//     left-to-right order in front of the statement that contains it; `case` conditions are
//     evaluated one after the other, never hoisted.
//
// The name mapping (Go field/method/constant -> model vocabulary) is in tables.go and is printed
// into the header of every generated file.  It is part of the trusted base.
//
// FURTHER GROUPS (second translation scheme, imp.go: symbolic execution of imperative functions into a
// decision tree - loops carrying a result struct, closures, continue, switch with fallthrough, type
// switches, nil tests, early error returns, oracle calls, assembled slices/strings; its subset is
// documented at the top of imp.go).  Their files are listed on the command line only by the
// properties that use them (a group registers itself in init()):
//
//	-only build   build.go   host/contracts/update.go buildContractState -> coq/Contracts/gen/BuildGen.v (C01)
//	              go run tools/go2coq/{main,tables,expr,stmt,imp,build}.go -only build
//	-only query   filter.go  persist/sqlite/contracts.go buildContractFilter, buildV2ContractFilter, buildOrderBy,
//	              buildV2OrderBy -> coq/Query/gen/FilterGen.v (C19); SQL fragments through sqlclause.py ->
//	              tools/sqlgen's clause parser
//	              go run tools/go2coq/{main,tables,expr,stmt,imp,build,filter}.go -only query
package main

import (
	"flag"
	"fmt"
	"go/ast"
	"go/parser"
	"go/token"
	"os"
	"path/filepath"
	"sort"
	"strings"
)

var fset = token.NewFileSet()

type unsupported struct {
	pos token.Pos
	msg string
}

func fail(n ast.Node, format string, a ...any) {
	p := token.NoPos
	if n != nil {
		p = n.Pos()
	}
	panic(unsupported{p, fmt.Sprintf(format, a...)})
}

// one Go source file and the functions to take from it
type target struct {
	file   string // relative to the repository
	module string // Coq module the definitions are wrapped in ("" = none)
	funcs  []string
}

type output struct {
	path      string // relative to the verif root
	requires  []string
	formation bool // FormationGen may use void_addr / cmul64_o / settings2 / ptable
	mdm       bool // MDMGen: the programData vocabulary of coq/MDM
	group     string
	targets   []target
	// groups translated by another scheme (imp.go: build.go, ...) register themselves in init();
	// the files of such a group are listed on the command line only by the properties that use it
	custom func(repo string, o *output) (string, []string)
}

var outputs = []output{
	{
		group:    "revision",
		path:     "coq/Revision/gen/RevisionGen.v",
		requires: []string{"From HostdBase Require Import Base.", "From HostdRevision Require Import Model GenPrelude."},
		targets: []target{{file: "rhp/contracts.go", funcs: []string{
			"validateStdRevision", "Revise", "ClearingRevision", "ValidateClearingRevision",
			"ValidateRevision", "ValidateProgramRevision", "ValidatePaymentRevision"}}},
	},
	{
		group:     "formation",
		path:      "coq/Formation/gen/FormationGen.v",
		requires:  []string{"From HostdBase Require Import Base.", "From HostdRevision Require Import Model GenPrelude.", "From HostdFormation Require Import Model."},
		formation: true,
		targets: []target{
			{file: "rhp/v2/contracts.go", module: "V2", funcs: []string{"validateContractFormation", "validateContractRenewal", "renewalBaseCosts"}},
			{file: "rhp/v3/contracts.go", module: "V3", funcs: []string{"validateContractRenewal", "renewalBaseCosts"}},
		},
	},
	{
		group:    "mdm",
		path:     "coq/MDM/gen/MDMGen.v",
		requires: []string{"From HostdBase Require Import Base.", "From HostdMDM Require Import Model GenPrelude."},
		mdm:      true,
		targets: []target{{file: "rhp/v3/execute.go", funcs: []string{
			"programData.Uint64", "programData.Hash", "programData.Signature", "programData.Sector",
			"programData.Bytes", "programData.UnlockKey"}}},
	},
}

// the imports a translated file may use, by the name they are referred to
var expectedImports = map[string]string{
	"types": "go.sia.tech/core/types", "rhp2": "go.sia.tech/core/rhp/v2", "rhp3": "go.sia.tech/core/rhp/v3",
	"math": "math", "errors": "errors", "fmt": "fmt", "binary": "encoding/binary",
}

type gofile struct {
	path    string
	f       *ast.File
	funcs   map[string]*ast.FuncDecl
	imports map[string]string // local name -> path
}

func parseFile(path string) *gofile {
	f, err := parser.ParseFile(fset, path, nil, parser.SkipObjectResolution)
	if err != nil {
		panic(unsupported{token.NoPos, fmt.Sprintf("%s: cannot parse: %v", path, err)})
	}
	g := &gofile{path: path, f: f, funcs: map[string]*ast.FuncDecl{}, imports: map[string]string{}}
	for _, im := range f.Imports {
		p := strings.Trim(im.Path.Value, `"`)
		name := filepath.Base(p)
		if im.Name != nil {
			name = im.Name.Name
		}
		g.imports[name] = p
	}
	for _, d := range f.Decls {
		if fd, ok := d.(*ast.FuncDecl); ok {
			if fd.Recv == nil {
				g.funcs[fd.Name.Name] = fd
			} else if len(fd.Recv.List) == 1 {
				if id, ok := fd.Recv.List[0].Type.(*ast.Ident); ok { // value receiver of a named type
					g.funcs[id.Name+"."+fd.Name.Name] = fd
				}
			}
		}
	}
	return g
}

// usesPkg checks that a package qualifier refers to the import the tables assume.
func (g *gofile) usesPkg(n ast.Node, name string) {
	want, ok := expectedImports[name]
	if !ok {
		fail(n, "package %s is not in the supported subset", name)
	}
	if got := g.imports[name]; got != want {
		fail(n, "package name %s refers to %q, the tables assume %q", name, got, want)
	}
}

// a translated function
type gendef struct {
	name   string
	moved  string // file of the package the function was found in, when not the target file
	text   string
	params []string // Coq binders, for the summary
}

type unit struct {
	g       *gofile // the file of the function being translated (its imports are the ones checked)
	home    *gofile // the target file; the other files of its package are searched after it
	sibs    []*gofile
	sibsOK  bool
	out     *output
	done    map[string]*gendef
	order   []*gendef
	active  map[string]bool // recursion guard
	sigs    map[string]*fsig
	ucCheck bool
}

// find looks a function ("f" or "T.m" for a value-receiver method) up in the target file and then
// in the other non-test files of its package: a function moved between files of a package is
// the same function.
func (u *unit) find(name string) (*gofile, *ast.FuncDecl) {
	if u.home == nil {
		u.home = u.g
	}
	if fd, ok := u.home.funcs[name]; ok {
		return u.home, fd
	}
	if !u.sibsOK {
		u.sibsOK = true
		all, _ := filepath.Glob(filepath.Join(filepath.Dir(u.home.path), "*.go"))
		sort.Strings(all)
		for _, p := range all {
			if p != u.home.path && !strings.HasSuffix(p, "_test.go") {
				u.sibs = append(u.sibs, parseFile(p))
			}
		}
	}
	for _, g := range u.sibs {
		if fd, ok := g.funcs[name]; ok {
			return g, fd
		}
	}
	return nil, nil
}

func (u *unit) translate(name string, at ast.Node) *gendef {
	if d, ok := u.done[name]; ok {
		return d
	}
	g, fd := u.find(name)
	if fd == nil {
		if at != nil {
			fail(at, "function %s is not defined in the package of %s", name, u.home.path)
		}
		panic(unsupported{token.NoPos, fmt.Sprintf("%s: function %s not found (nor in the other files of the package)", u.home.path, name)})
	}
	if u.active[name] {
		fail(at, "recursive function %s", name)
	}
	u.active[name] = true
	cur := u.g
	u.g = g
	d := translateFunc(u, fd, name)
	u.g = cur
	if g != u.home {
		d.moved = filepath.Base(g.path)
	}
	delete(u.active, name)
	u.done[name] = d
	u.order = append(u.order, d)
	return d
}

func generate(repo string, o *output) (string, []string) {
	var b strings.Builder
	var summary []string
	b.WriteString("(* GENERATED by tools/go2coq from the current source of the repository - do not edit;\n")
	b.WriteString("   regenerated at the start of every check run (props \"gen\" entry).\n   sources:")
	for _, t := range o.targets {
		b.WriteString(" " + t.file)
	}
	b.WriteString("\n\n" + strings.ReplaceAll(strings.ReplaceAll(tableComment(), "(*", "( *"), "*)", "* )") + " *)\n")
	for _, r := range o.requires {
		b.WriteString(r + "\n")
	}
	b.WriteString("Local Open Scope N_scope.\n\n")
	for i := range o.targets {
		t := &o.targets[i]
		g := parseFile(filepath.Join(repo, t.file))
		u := &unit{g: g, out: o, done: map[string]*gendef{}, active: map[string]bool{}, sigs: map[string]*fsig{}}
		for _, fn := range t.funcs {
			u.translate(fn, nil)
		}
		if t.module != "" {
			b.WriteString("Module " + t.module + ".\n\n")
		}
		for _, d := range u.order {
			if d.moved != "" {
				b.WriteString("(* " + filepath.Join(filepath.Dir(t.file), d.moved) + ": func " + d.name + " *)\n")
			} else {
				b.WriteString("(* " + t.file + ": func " + d.name + " *)\n")
			}
			b.WriteString(d.text + "\n\n")
			q := d.name
			if t.module != "" {
				q = t.module + "." + q
			}
			summary = append(summary, "  "+q+" "+strings.Join(d.params, " "))
		}
		if t.module != "" {
			b.WriteString("End " + t.module + ".\n\n")
		}
		// every generated definition can be unfolded by name-independent proof scripts
		for _, d := range u.order {
			q := d.name
			if t.module != "" {
				q = t.module + "." + q
			}
			b.WriteString("#[global] Hint Unfold " + q + " : go2coq.\n")
		}
		b.WriteString("\n")
	}
	return b.String(), summary
}

func main() {
	root := flag.String("root", "", "verif root to write under (default: two levels above this tool)")
	only := flag.String("only", "", "comma-separated output groups to regenerate (revision, formation, mdm); default all")
	flag.Parse()
	repo := os.Getenv("VERIF_REPO")
	if repo == "" {
		repo = "/repo"
	}
	if *root == "" {
		wd, _ := os.Getwd()
		*root = wd
		if _, err := os.Stat(filepath.Join(wd, "coq", "Revision")); err != nil {
			*root = "/verif"
		}
	}
	type result struct {
		path, text string
		summary    []string
	}
	var results []result
	failed := false
	for i := range outputs {
		o := &outputs[i]
		if *only != "" && !strings.Contains(","+*only+",", ","+o.group+",") {
			continue
		}
		func() {
			defer func() {
				if r := recover(); r != nil {
					if e, ok := r.(unsupported); ok {
						where := ""
						if e.pos != token.NoPos {
							where = fset.Position(e.pos).String() + ": "
						}
						fmt.Fprintf(os.Stderr, "go2coq: ERROR: %s%s\n", where, e.msg)
						fmt.Fprintf(os.Stderr, "go2coq: %s NOT regenerated (outside the supported subset; see tools/go2coq/main.go)\n", o.path)
						failed = true
						return
					}
					panic(r)
				}
			}()
			gen := generate
			if o.custom != nil {
				gen = o.custom
			}
			text, summary := gen(repo, o)
			results = append(results, result{o.path, text, summary})
		}()
	}
	for _, r := range results {
		dst := filepath.Join(*root, r.path)
		old, _ := os.ReadFile(dst)
		changed := string(old) != r.text
		if changed {
			if err := os.MkdirAll(filepath.Dir(dst), 0o755); err != nil {
				fmt.Fprintln(os.Stderr, "go2coq:", err)
				os.Exit(2)
			}
			tmp := dst + ".tmp"
			if err := os.WriteFile(tmp, []byte(r.text), 0o644); err != nil {
				fmt.Fprintln(os.Stderr, "go2coq:", err)
				os.Exit(2)
			}
			if err := os.Rename(tmp, dst); err != nil {
				fmt.Fprintln(os.Stderr, "go2coq:", err)
				os.Exit(2)
			}
		}
		c := ""
		if changed {
			c = " (changed)"
		}
		fmt.Printf("go2coq: %d functions translated from %s -> %s%s\n", len(r.summary), repo, r.path, c)
		sort.Strings(r.summary)
		for _, s := range r.summary {
			fmt.Println(s)
		}
	}
	if failed {
		os.Exit(2)
	}
}
