package main

// The name mapping from Go (hostd / go.sia.tech/core) to the vocabulary of the hand-written
// models (coq/Base/Base.v, coq/Revision/Model.v, coq/Revision/GenPrelude.v,
// coq/Formation/Model.v).  TRUSTED: a wrong line here makes the generated model say something
// else than the code.  Keep it small and readable.

import (
	"fmt"
	"sort"
	"strings"
)

type kind int

const (
	kNat       kind = iota // Go int (len, loop index)                     -> nat
	kU64                   // uint64                                       -> N (wrapping ops)
	kCur                   // types.Currency                               -> N (checked ops)
	kAddr                  // types.Address (numbered by the harness)      -> N
	kHash                  // types.Hash256 (numbered, 0 = zero value)     -> N
	kBool                  // bool
	kOutput                // types.SiacoinOutput                          -> output
	kRev                   // types.FileContract / FileContractRevision    -> rev
	kSettings              // rhp2.HostSettings                            -> settings2
	kPTable                // rhp3.HostPriceTable                          -> ptable
	kKey                   // types.UnlockKey (only as argument of contractUnlockConditions)
	kUC                    // types.UnlockConditions, represented by the id of its UnlockHash()
	kList                  // []T
	kErr                   // error
	kInt                   // untyped integer constant
	kPData                 // rhp/v3 programData ([]byte, len = cap)            -> pdata
	kView                  // []byte sliced out of the program data          -> bview
	kSectorPtr             // *[rhp2.SectorSize]byte                          -> unit
	kUKey                  // types.UnlockKey as a struct value (MDM only)    -> ukey
	kSpec                  // types.Specifier (16 bytes, little-endian number) -> N
	kSig                   // types.Signature (64 bytes, little-endian number) -> N
)

type ty struct {
	k    kind
	elem *ty
}

var (
	tNat       = &ty{k: kNat}
	tU64       = &ty{k: kU64}
	tCur       = &ty{k: kCur}
	tAddr      = &ty{k: kAddr}
	tHash      = &ty{k: kHash}
	tBool      = &ty{k: kBool}
	tOutput    = &ty{k: kOutput}
	tRev       = &ty{k: kRev}
	tSettings  = &ty{k: kSettings}
	tPTable    = &ty{k: kPTable}
	tKey       = &ty{k: kKey}
	tUC        = &ty{k: kUC}
	tErr       = &ty{k: kErr}
	tInt       = &ty{k: kInt}
	tOutputs   = &ty{k: kList, elem: tOutput}
	tCurs      = &ty{k: kList, elem: tCur}
	tPData     = &ty{k: kPData}
	tView      = &ty{k: kView}
	tSectorPtr = &ty{k: kSectorPtr}
	tUKey      = &ty{k: kUKey}
	tSpec      = &ty{k: kSpec}
	tSig       = &ty{k: kSig}
)

func (t *ty) isN() bool {
	return t.k == kU64 || t.k == kCur || t.k == kAddr || t.k == kHash || t.k == kSpec || t.k == kSig
}

func (t *ty) same(o *ty) bool {
	if t.k != o.k {
		return false
	}
	if t.k == kList {
		return t.elem.same(o.elem)
	}
	return true
}

func (t *ty) String() string {
	switch t.k {
	case kNat:
		return "int"
	case kU64:
		return "uint64"
	case kCur:
		return "Currency"
	case kAddr:
		return "Address"
	case kHash:
		return "Hash256"
	case kBool:
		return "bool"
	case kOutput:
		return "SiacoinOutput"
	case kRev:
		return "FileContract(Revision)"
	case kSettings:
		return "HostSettings"
	case kPTable:
		return "HostPriceTable"
	case kKey:
		return "UnlockKey"
	case kUC:
		return "UnlockConditions"
	case kList:
		return "[]" + t.elem.String()
	case kErr:
		return "error"
	case kInt:
		return "untyped int"
	case kPData:
		return "programData"
	case kView:
		return "[]byte"
	case kSectorPtr:
		return "*[SectorSize]byte"
	case kUKey:
		return "UnlockKey"
	case kSpec:
		return "Specifier"
	case kSig:
		return "Signature"
	}
	return "?"
}

// Coq type of a Go type
func (t *ty) coq() string {
	switch t.k {
	case kNat:
		return "nat"
	case kU64, kCur, kAddr, kHash, kUC, kSpec, kSig:
		return "N"
	case kPData:
		return "pdata"
	case kView:
		return "bview"
	case kSectorPtr:
		return "unit"
	case kUKey:
		return "ukey"
	case kBool:
		return "bool"
	case kOutput:
		return "output"
	case kRev:
		return "rev"
	case kSettings:
		return "settings2"
	case kPTable:
		return "ptable"
	case kList:
		return "list " + t.elem.coq()
	}
	return "?" + t.String()
}

// zero value of a Go type
func (t *ty) zero() string {
	switch t.k {
	case kNat:
		return "0%nat"
	case kU64, kCur, kAddr, kHash, kSpec, kSig:
		return "0"
	case kUKey:
		return "zero_ukey"
	case kBool:
		return "false"
	case kRev:
		return "zero_rev"
	case kOutput:
		return "zero_output"
	case kList:
		return "[]"
	}
	return ""
}

// TYPE TABLE: Go type expression (as written with the expected import names) -> model type
var goTypes = map[string]*ty{
	"int":                        tNat,
	"uint64":                     tU64,
	"bool":                       tBool,
	"error":                      tErr,
	"types.Currency":             tCur,
	"types.Address":              tAddr,
	"types.Hash256":              tHash,
	"types.SiacoinOutput":        tOutput,
	"types.FileContract":         tRev,
	"types.FileContractRevision": tRev,
	"types.UnlockKey":            tKey,
	"types.UnlockConditions":     tUC,
	"rhp2.HostSettings":          tSettings,
	"rhp3.HostPriceTable":        tPTable,
	"[]types.Currency":           tCurs,
	"[]types.SiacoinOutput":      tOutputs,
}

// TYPE TABLE of the MDM output (rhp/v3/execute.go programData accessors); overrides goTypes
var mdmTypes = map[string]*ty{
	"programData":            tPData,
	"[]byte":                 tView,
	"*[rhp2.SectorSize]byte": tSectorPtr,
	"types.UnlockKey":        tUKey,
	"types.Signature":        tSig,
	"types.Specifier":        tSpec,
}

// *(*T)(s) for a fixed-size byte-array type T: the little-endian number of the first n bytes of s,
// Panic when s is shorter
var derefConv = map[string]struct {
	n  int
	ty *ty
}{
	"types.Hash256":   {32, tHash},
	"types.Specifier": {16, tSpec},
	"types.Signature": {64, tSig},
}

type fieldInfo struct {
	get, set string // accessor of the model record; setter of GenPrelude ("" = read-only)
	ty       *ty
}

// FIELD TABLE
var fields = map[kind]map[string]fieldInfo{
	kRev: {
		"Filesize":           {"rsize", "set_rsize", tU64},
		"FileMerkleRoot":     {"rroot", "set_rroot", tHash},
		"WindowStart":        {"rws", "set_rws", tU64},
		"WindowEnd":          {"rwe", "set_rwe", tU64},
		"ValidProofOutputs":  {"rvalid", "set_rvalid", tOutputs},
		"MissedProofOutputs": {"rmissed", "set_rmissed", tOutputs},
		"UnlockHash":         {"ruh", "set_ruh", tAddr},
		"RevisionNumber":     {"rnum", "set_rnum", tU64},
		"UnlockConditions":   {"ruc", "", tUC}, // only .UnlockHash() can be applied to it
	},
	kOutput: {
		"Address": {"oaddr", "set_oaddr", tAddr},
		"Value":   {"oval", "set_oval", tCur},
	},
	kUKey: {
		"Algorithm": {"k_alg", "set_k_alg", tSpec},
		"Key":       {"k_key", "set_k_key", tView},
	},
	kSettings: {
		"AcceptingContracts": {"s_accepting", "", tBool},
		"Address":            {"s_address", "", tAddr},
		"WindowSize":         {"s_window", "", tU64},
		"MaxDuration":        {"s_maxdur", "", tU64},
		"ContractPrice":      {"s_price", "", tCur},
		"MaxCollateral":      {"s_maxcoll", "", tCur},
		"StoragePrice":       {"s_storage", "", tCur},
		"Collateral":         {"s_coll", "", tCur},
		"BaseRPCPrice":       {"s_baserpc", "", tCur},
	},
	kPTable: {
		"HostBlockHeight":   {"p_height", "", tU64},
		"WindowSize":        {"p_window", "", tU64},
		"MaxDuration":       {"p_maxdur", "", tU64},
		"ContractPrice":     {"p_price", "", tCur},
		"MaxCollateral":     {"p_maxcoll", "", tCur},
		"RenewContractCost": {"p_renewcost", "", tCur},
		"WriteStoreCost":    {"p_writestore", "", tCur},
		"CollateralCost":    {"p_collcost", "", tCur},
	},
}

type methodInfo struct {
	coq      string // %r = receiver, %a = the argument
	argTy    *ty    // nil = no argument
	resTy    *ty
	monadic  bool // the Coq term has type res T (can panic)
	pair     bool // the Coq term has type T * bool (…WithOverflow/…WithUnderflow)
	formOnly bool // only available in FormationGen (defined in Formation/Model.v)
}

// METHOD TABLE (receiver kind, method)
var methods = map[kind]map[string]methodInfo{
	kRev: { // core/types: ValidRenterOutput() = ValidProofOutputs[0], ...Payout() = ...Output().Value
		"ValidRenterPayout":  {coq: "valid_renter %r", resTy: tCur, monadic: true},
		"ValidHostPayout":    {coq: "valid_host %r", resTy: tCur, monadic: true},
		"MissedRenterPayout": {coq: "missed_renter %r", resTy: tCur, monadic: true},
		"MissedHostPayout":   {coq: "missed_host %r", resTy: tCur, monadic: true},
		"ValidRenterOutput":  {coq: "nth_out (rvalid %r) 0%nat", resTy: tOutput, monadic: true},
		"ValidHostOutput":    {coq: "nth_out (rvalid %r) 1%nat", resTy: tOutput, monadic: true},
		"MissedRenterOutput": {coq: "nth_out (rmissed %r) 0%nat", resTy: tOutput, monadic: true},
		"MissedHostOutput":   {coq: "nth_out (rmissed %r) 1%nat", resTy: tOutput, monadic: true},
	},
	kUC: {
		"UnlockHash": {coq: "%r", resTy: tAddr}, // an UnlockConditions value IS the id of its hash
	},
	kCur: {
		"Equals":            {coq: "%r =? %a", argTy: tCur, resTy: tBool},
		"IsZero":            {coq: "%r =? 0", resTy: tBool},
		"Add":               {coq: "cadd %r %a", argTy: tCur, resTy: tCur, monadic: true},
		"Sub":               {coq: "csub %r %a", argTy: tCur, resTy: tCur, monadic: true},
		"Mul64":             {coq: "cmul64 %r %a", argTy: tU64, resTy: tCur, monadic: true},
		"AddWithOverflow":   {coq: "cadd_o %r %a", argTy: tCur, resTy: tCur, pair: true},
		"SubWithUnderflow":  {coq: "csub_u %r %a", argTy: tCur, resTy: tCur, pair: true},
		"Mul64WithOverflow": {coq: "cmul64_o %r %a", argTy: tU64, resTy: tCur, pair: true, formOnly: true},
		// Cmp is handled in expr.go: x.Cmp(y) OP 0  ->  the N comparison OP between x and y
	},
}

type constInfo struct {
	coq      string
	ty       *ty
	formOnly bool
	mdmOnly  bool
}

// CONSTANT TABLE
var constants = map[string]constInfo{
	"types.ZeroCurrency":      {"0", tCur, false, false},
	"types.MaxRevisionNumber": {"max64", tU64, false, false}, // core: = math.MaxUint64
	"math.MaxUint64":          {"max64", tU64, false, false},
	"types.VoidAddress":       {"void_addr", tAddr, true, false}, // the zero Address
	"rhp2.SectorSize":         {"SectorSize", tInt, false, true}, // untyped constant 1 << 22 (MDM/Model.v)
}

// the definition every translated file must have for contractUnlockConditions (whitespace-free)
const expectedUC = "funccontractUnlockConditions(hostKey,renterKeytypes.UnlockKey)types.UnlockConditions{returntypes.UnlockConditions{PublicKeys:[]types.UnlockKey{renterKey,hostKey},SignaturesRequired:2,}}"

// identifiers generated code may refer to: Go names equal to one of them get a suffix
var reserved = map[string]bool{}

func init() {
	for _, w := range strings.Fields(`as at cofix do else end exists exists2 fix for forall fun if IF in let match mod
		return Set Prop SProp Type then using where with by
		N nat bool unit list option res Ok Err Panic EInvalid bind tt true false negb andb orb length fst snd Some None
		rev output settings2 ptable bad nth_out nth_res set_nth for_range mk_outputs zero_rev zero_output
		wadd wsub wmul cadd csub cmul64 cadd_o csub_u cmul64_o max64 void_addr uhexp
		valid_renter valid_host missed_renter missed_host
		pdata bview ukey plen pd_slice view_array view_sector zero_ukey SectorSize v_len v_off v_data`) {
		reserved[w] = true
	}
	for _, m := range fields {
		for _, f := range m {
			reserved[f.get] = true
			if f.set != "" {
				reserved[f.set] = true
			}
		}
	}
}

// the tables, for the header of the generated files
func tableComment() string {
	var b strings.Builder
	b.WriteString("   NAME MAPPING (tools/go2coq/tables.go - trusted):\n")
	var ts []string
	for g, t := range goTypes {
		if t.k != kErr && t.k != kKey {
			ts = append(ts, fmt.Sprintf("%s -> %s", g, t.coq()))
		}
	}
	sort.Strings(ts)
	b.WriteString("   types:   " + strings.Join(ts, "; ") + ";\n            two types.UnlockKey parameters -> one parameter uhexp : N (id of contractUnlockConditions(hostKey, renterKey).UnlockHash());\n            error -> res (Err EInvalid for every error value, Panic for a Go panic)\n")
	kinds := []kind{kRev, kOutput, kSettings, kPTable}
	names := map[kind]string{kRev: "FileContract(Revision)", kOutput: "SiacoinOutput", kSettings: "rhp2.HostSettings", kPTable: "rhp3.HostPriceTable", kCur: "Currency", kUC: "UnlockConditions"}
	for _, k := range kinds {
		var fs []string
		for n, f := range fields[k] {
			fs = append(fs, n+" -> "+f.get)
		}
		sort.Strings(fs)
		b.WriteString("   fields of " + names[k] + ": " + strings.Join(fs, ", ") + "\n")
	}
	for _, k := range []kind{kRev, kCur, kUC} {
		var ms []string
		for n, m := range methods[k] {
			s := strings.ReplaceAll(strings.ReplaceAll(m.coq, "%r", "x"), "%a", "y")
			arg := "()"
			if m.argTy != nil {
				arg = "(y)"
			}
			ms = append(ms, "x."+n+arg+" -> "+s)
		}
		sort.Strings(ms)
		b.WriteString("   methods of " + names[k] + ": " + strings.Join(ms, "; ") + "\n")
	}
	b.WriteString("   x.Cmp(y) OP 0 -> x OP y on N (< is <?, <= is <=?, == is =?, > and >= with the operands swapped)\n")
	var cs []string
	for n, c := range constants {
		cs = append(cs, n+" -> "+c.coq)
	}
	sort.Strings(cs)
	b.WriteString("   constants: " + strings.Join(cs, ", ") + ", types.Hash256{} -> 0, types.FileContractRevision{} -> zero_rev\n")
	b.WriteString("   uint64 + - * -> wadd wsub wmul; == != < <= on uint64/Currency/Address/Hash256 -> =? <? <=? on N; on int -> Nat.eqb Nat.ltb Nat.leb;\n")
	b.WriteString("   xs[i] -> nth_out xs i / nth_res xs i (Panic out of range); len -> length; make([]T, n) -> mk_outputs n;\n")
	b.WriteString("   programData (MDM output only): uint64(len(pd)) -> plen pd; pd[lo:hi] -> pd_slice pd lo hi (Panic unless lo <= hi <= len); conversion of s to *[rhp2.SectorSize]byte -> view_sector s;\n")
	b.WriteString("     dereferenced conversion of s to *types.Hash256|Specifier|Signature -> view_array s 32|16|64; binary.LittleEndian.Uint64(s) -> view_array s 8 (Panic when s is shorter); UnlockKey{Algorithm, Key} -> ukey{k_alg, k_key}\n")
	b.WriteString("   xs[i] = v (fresh slice) -> set_nth xs i v after a checked read; for .. range -> for_range; errors.New/fmt.Errorf -> Err EInvalid")
	return b.String()
}
