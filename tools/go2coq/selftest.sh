#!/bin/bash
# tools/go2coq/selftest.sh — replays the edits under tools/go2coq/tests/*.diff in a scratch
# worktree of the repository and checks that each is reported as its first line says.
#
#   selftest.sh [--full] [name-pattern]
#
# default (fast, ~10 s per edit): translator + Coq build of the generated files, the equivalence
#   proofs and the twin theorems in a scratch copy of coq/{Base,Revision,Formation,MDM} and of the
#   Build part of coq/Contracts (edits of host/contracts/update.go: group "build" only) and of coq/Query
#   (edits of persist/sqlite/contracts.go: group "query" only) and coq/Funding (persist/sqlite/accounts.go: "funding");
#   SELFTEST_SCR chooses the scratch directory (two fast runs at a time need two);
#   SELFTEST_WT / SELFTEST_TAG choose the scratch worktree and the run tag of --full;
#   b* must raise an alarm (translator hard error or broken equivalence), h* must stay quiet.
# --full (~1-2 min per edit): the real thing, `VERIF_REPO=<worktree> python3 tools/check.py C07|C12`
#   (C07 for edits of rhp/contracts.go, C12 for rhp/v2 and rhp/v3 contracts.go, C14 for rhp/v3/execute.go,
#   C01 for host/contracts/update.go, C19 for persist/sqlite/contracts.go, C11 for persist/sqlite/accounts.go);
#   b* must print VIOLATION and
#   exit 1, h* must exit 0.  Do not run --full while someone else checks C07/C12: the generated
#   files in coq/ are shared.
set -u
export GOPROXY=off GOSUMDB=off GOTOOLCHAIN=local GOFLAGS=
VERIF=$(cd "$(dirname "$0")/../.." && pwd)
TESTS=$VERIF/tools/go2coq/tests
WT=${SELFTEST_WT:-/tmp/wt-t1}
TAG=${SELFTEST_TAG:--t1}
FULL=0; PAT=""
for a in "$@"; do case $a in --full) FULL=1;; *) PAT=$a;; esac; done
G2C="go run $VERIF/tools/go2coq/main.go $VERIF/tools/go2coq/tables.go $VERIF/tools/go2coq/expr.go $VERIF/tools/go2coq/stmt.go $VERIF/tools/go2coq/imp.go $VERIF/tools/go2coq/build.go $VERIF/tools/go2coq/filter.go $VERIF/tools/go2coq/dist.go"
# the part of coq/Contracts the generated BuildGen.v and its equivalence proof need (fast mode)
BUILDFILES="Model.v Chain.v Build.v BuildProofs.v gen/BuildPrelude.v gen/BuildGen.v BuildGenEquiv.v Props_C01_BuildGen.v"

[ -d "$WT" ] || git -C /repo worktree add "$WT" HEAD >/dev/null 2>&1 || { echo "cannot create $WT"; exit 2; }
git -C "$WT" checkout -q . 

SCR=${SELFTEST_SCR:-/tmp/go2coq-selftest}
if [ $FULL = 0 ]; then
  rm -rf $SCR; mkdir -p $SCR/coq
  for g in Base Revision Formation MDM Query Funding; do
    mkdir -p $SCR/coq/$g; (cd $VERIF/coq/$g && cp -r *.v _CoqProject $SCR/coq/$g/ && [ -d gen ] && cp -r gen $SCR/coq/$g/ || true)
  done
  mkdir -p $SCR/coq/Contracts/gen
  (cd $VERIF/coq/Contracts && for f in $BUILDFILES; do cp $f $SCR/coq/Contracts/$f; done)
  { echo "-Q ../Base HostdBase"; echo "-Q . HostdContracts"; for f in $BUILDFILES; do echo $f; done; } > $SCR/coq/Contracts/_CoqProject
  (cd $SCR/coq/Base && coq_makefile -f _CoqProject -o Makefile.coq >/dev/null 2>&1 && timeout 600 make -f Makefile.coq -j8 >/dev/null 2>&1)
fi

build_scratch() {  # build the given groups in the scratch copy; prints the first error
  for g in "$@"; do
    (cd $SCR/coq/$g && coq_makefile -f _CoqProject -o Makefile.coq >/dev/null 2>&1 && timeout 900 make -f Makefile.coq -j8 2>&1 | grep -A3 "^File\|Error" | head -8) > $SCR/build-$g.log
    [ -s $SCR/build-$g.log ] && { echo "coq/$g: $(tr '\n' ' ' < $SCR/build-$g.log | cut -c1-260)"; return 1; }
  done
  return 0
}

pass=0; failn=0
for d in $TESTS/*.diff; do
  n=$(basename $d .diff)
  [ -n "$PAT" ] && [[ $n != *$PAT* ]] && continue
  exp=$(head -1 $d | sed 's/^# expect: //')
  git -C "$WT" checkout -q . 
  if ! (tail -n +2 $d | git -C "$WT" apply -); then echo "FAIL $n: diff does not apply"; failn=$((failn+1)); continue; fi
  case $exp in quiet*) want=quiet;; *) want=alarm;; esac
  if [ $FULL = 1 ]; then
    props=""
    grep -q "^+++ b/rhp/contracts.go" $d && props="C07"
    grep -q "^+++ b/rhp/v[23]/contracts.go" $d && props="$props C12"
    grep -q "^+++ b/rhp/v3/execute.go" $d && props="$props C14"
    grep -q "^+++ b/host/contracts/update.go" $d && props="$props C01"
    grep -q "^+++ b/persist/sqlite/contracts.go" $d && props="$props C19"
    grep -q "^+++ b/persist/sqlite/accounts.go" $d && props="$props C11"
    got=quiet; how=""
    for p in $props; do
      out=$(cd $VERIF && VERIF_REPO=$WT VERIF_RUNTAG=$TAG VERIF_NO_EVIDENCE=1 python3 tools/check.py $p 2>&1); rc=$?
      if [ $rc != 0 ]; then got=alarm; how="$how $p: $(echo "$out" | grep -c '^VIOLATION') VIOLATION line(s), $(echo "$out" | grep '^VIOLATION' | grep -vc no-failing-input) with a failing input;"; fi
    done
  else
    got=quiet; how=""
    only="revision,formation,mdm"; groups="Revision Formation MDM"
    if grep -q "^+++ b/host/contracts/update.go" $d; then only="build"; groups="Contracts"; fi
    if grep -q "^+++ b/persist/sqlite/contracts.go" $d; then only="query"; groups="Query"; fi
    if grep -q "^+++ b/persist/sqlite/accounts.go" $d; then only="funding"; groups="Funding"; fi
    out=$(cd $SCR && VERIF_REPO=$WT $G2C -root $SCR -only $only 2>&1) || { got=alarm; how="translator: $(echo "$out" | grep 'ERROR' | head -1)"; }
    if [ $got = quiet ]; then how=$(build_scratch $groups) || got=alarm; fi
  fi
  if [ $got = $want ]; then echo "ok   $n: $got ($exp) $how"; pass=$((pass+1)); else echo "FAIL $n: $got, expected $want ($exp) $how"; failn=$((failn+1)); fi
done
git -C "$WT" checkout -q .
echo "selftest: $pass ok, $failn failed"
[ $failn = 0 ]
