package main

// imp.go — the second translation scheme of go2coq: SYMBOLIC EXECUTION of an imperative Go
// function into a Gallina decision tree.  Used for functions that are not straight-line
// validators: loops that append to the fields of a result struct, closures, `continue`,
// `switch { .. fallthrough .. }`, type switches, nil tests of pointers and interfaces, early error
// returns, oracle calls on an interface parameter (host/contracts/update.go: buildContractState), SQL text and
// argument lists assembled at run time (persist/sqlite/contracts.go: buildContractFilter, buildOrderBy), closures
// mutating locals through pointers (persist/sqlite/accounts.go: distributeFunds).
//
// The function body is executed on symbolic values (Coq terms over the function's parameters and the
// loop variables).  Every Go condition is decomposed into its atomic tests (`&&`, `||`, `!` become
// control flow, in Go's evaluation order); each atomic test that is not already decided on the
// current path becomes an `if`/`match` of the generated term and both continuations are executed.
// Local variables, closures and helper functions of the same file therefore leave no trace in the
// output (values are substituted, calls are inlined): renaming a local, hoisting a sub-expression,
// `if !x { continue }` against a nested if, a switch against an if-chain, extracting a helper and
// reordering appends to different fields all give the same (or a trivially equal) tree.
//
// SUPPORTED SUBSET (anything else: hard error naming file:line, exit 2)
//
//   - statements: `x := e`, `x = e`, parallel `a, b := e1, e2`, `a, b := oracle(..)`, `x.F.G = e` on a
//     local struct value, `var x T` is NOT supported; `if [init;] c {..} [else ..]`; tagless
//     `switch [init;] { case c1, c2: .. fallthrough .. default: .. }` with `break`;
//     `switch [v :=] x.(type) { case nil: .. case *T: .. default: .. }` on an interface value of the
//     constructor table; `for _, v := range xs {..}` at the top level of the translated function
//     (the loop carries exactly the result struct; `continue`; an error `return` leaves the loop; a
//     successful `return` inside a loop is outside the subset); `return` (bare with named results, or
//     explicit); `f := func() {..}` (closure without parameters and results) and its calls `f()`;
//     calls of functions of the same file (inlined; value parameters only); calls of the logger
//     (`log.Debug(..)`, `log := log.With(..)`: the arguments are evaluated, the call has no effect).
//   - expressions: identifiers, field selection on struct values, `*p` / `p.F` on a pointer (Panic on a
//     path where p is nil, no test at all where the path has established p != nil), keyed composite
//     literals of the struct table, `T{}`, conversions of the conversion table, `append(xs, v..)` on
//     the result struct's slices, `x != nil` / `x == nil` on pointers, interfaces and errors,
//     `! && ||` (short-circuit), `== != < <= > >=` on numbers, `==`/`!=` on booleans,
//     the oracle comparisons of the group's table (`a.Cmp(b) OP 0` on two tagged currency values),
//     `fmt.Errorf(..)` / `errors.New(..)` (a non-nil error; the arguments are evaluated),
//     `zap.X(name, v)` (evaluated, opaque).
//
//   - groups that ask for it in their tables (filter.go, dist.go): `var x T` of the group's types; the tagged
//     `switch x { case c: .. }` (= the tagless switch over x == c); strings built from literals, `+` and the
//     group's table functions; slices assembled at run time (`append` of strings / arguments; each item
//     carries the condition under which it is present); `len(xs) == 0 / != 0 / > 0`; comparison of an
//     enumerated string with a string constant of the repository; `&x.F`, `*p`, `*p = v` on pointers to
//     local variables (also as arguments of closures and of inlined functions); closures with parameters;
//     types.Currency as a number (`IsZero`, `Equals`, `a.Cmp(b) OP 0`, checked `Add` / `Sub` -> cadd / csub);
//     JOINS instead of duplicated continuations: an `if` whose branches only assign (mergeIfs: the two stores
//     are merged value by value), a call of a closure / procedure (joinCalls: `do (vars) <- (call); rest`).
//   - ASSUMED, not checked: the result of `append` is assigned back to the slice it extends (two appends to
//     one slice value kept under different names would share a backing array in Go); the tables list every
//     implementation of an interface they give constructors for.
//
// What the names of the Go program mean in the model (struct shapes, oracle calls, the injection of
// appended elements into the model's lists) is the group's table (build.go, filter.go, dist.go); it is printed into
// the header of the generated file and is part of the trusted base.

import (
	"fmt"
	"go/ast"
	"go/token"
	"go/types"
	"sort"
	"strconv"
	"strings"
)

// ---------------------------------------------------------------- symbolic values

type skind int

const (
	sBool    skind = iota // Coq bool term
	sN                    // Coq N term (ids, revision numbers, uint64)
	sCur                  // a Currency the model knows only through an oracle comparison (tag, key)
	sStruct               // struct value: fields by Go name
	sOpt                  // pointer or interface value: Coq option term
	sList                 // slice: Coq list term
	sLogger               // *zap.Logger
	sTx                   // the interface parameter carrying the oracle calls
	sErr                  // error value, statically nil or non-nil
	sOpaque               // evaluated, never inspected (strings, zap fields)
	sClosure              // func literal without parameters and results
	sStr                  // string built from literals and table functions (parts)
	sGList                // slice assembled at run time: items, each present under a guard (bool term)
	sLen                  // len(xs) of a model list (t = the list) or of an assembled slice (items)
	sGroup                // a table function's result that is spread into an assembled slice (t = list, via)
	sEnum                 // a string the model knows by an enumeration (t; attrs: literal -> constructor; goType: eqb)
	sRef                  // &x / &x.F.G of a local variable: cell + field path
)

// part of a string value
type strPart struct {
	lit  string
	ph   *sval // queryPlaceHolders(len(ph)): as many placeholders as the model list has elements
	join *sval // strings.Join(join, sep)
	sep  string
}

// item of an assembled slice
type gitem struct {
	guard  string // Coq bool term: the item is present iff it is true ("true" = always)
	str    *sval  // a string item
	group  *sval  // all elements of a model list (sGroup)
	scalar *sval  // one value
}

func (g gitem) String() string {
	switch {
	case g.str != nil:
		return g.guard + "?" + g.str.String()
	case g.group != nil:
		return g.guard + "?" + g.group.String()
	}
	return g.guard + "?" + g.scalar.String()
}

type sval struct {
	k      skind
	t      string           // Coq term (sBool, sN, sOpt, sList)
	goType string           // sStruct: Go type; sList: element type; sOpt: pointed-to / interface type
	fields map[string]*sval // sStruct
	attrs  map[string]string
	tag    string // sCur
	key    string // sCur
	isNil  bool   // sErr
	iface  bool   // sOpt: interface (constructor table) rather than pointer
	fn     *ast.FuncLit
	sc     *scope
	parts  []strPart // sStr
	items  []gitem   // sGList, sLen of one
	via    string    // sGroup: the table function the elements went through
	cell   int       // sRef
	path   []string  // sRef
}

func (v *sval) clone() *sval {
	if v == nil {
		return nil
	}
	c := *v
	if v.fields != nil {
		c.fields = map[string]*sval{}
		for n, f := range v.fields {
			c.fields[n] = f.clone()
		}
	}
	if v.attrs != nil {
		c.attrs = map[string]string{}
		for n, a := range v.attrs {
			c.attrs[n] = a
		}
	}
	c.parts = append([]strPart(nil), v.parts...)
	c.items = append([]gitem(nil), v.items...)
	return &c
}

func (v *sval) String() string {
	if v == nil {
		return "<unset>"
	}
	switch v.k {
	case sStruct:
		var ns []string
		for n := range v.fields {
			ns = append(ns, n)
		}
		sort.Strings(ns)
		var b strings.Builder
		b.WriteString(v.goType + "{")
		for _, n := range ns {
			b.WriteString(n + ":" + v.fields[n].String() + ";")
		}
		var as []string
		for n, a := range v.attrs {
			as = append(as, n+"="+a)
		}
		sort.Strings(as)
		return b.String() + strings.Join(as, ";") + "}"
	case sCur:
		return "cur<" + v.tag + "," + v.key + ">"
	case sErr:
		return fmt.Sprintf("err<nil=%v>", v.isNil)
	case sClosure:
		return fmt.Sprintf("closure@%d", v.fn.Pos())
	case sLogger, sTx, sOpaque:
		return fmt.Sprintf("kind%d", v.k)
	case sStr:
		var b strings.Builder
		for _, p := range v.parts {
			switch {
			case p.ph != nil:
				b.WriteString("<ph " + p.ph.t + ">")
			case p.join != nil:
				b.WriteString("<join " + p.join.String() + " by " + strconv.Quote(p.sep) + ">")
			default:
				b.WriteString(strconv.Quote(p.lit))
			}
		}
		return "str[" + b.String() + "]"
	case sGList, sLen:
		var is []string
		for _, it := range v.items {
			is = append(is, it.String())
		}
		return fmt.Sprintf("k%d<%s|%s|%s>", v.k, v.goType, v.t, strings.Join(is, "; "))
	case sGroup:
		return "group<" + v.t + " via " + v.via + ">"
	case sRef:
		return fmt.Sprintf("&cell%d.%s", v.cell, strings.Join(v.path, "."))
	}
	return v.t
}

func (k skind) String() string {
	return [...]string{"bool", "number", "Currency", "struct", "pointer/interface", "slice", "logger", "tx", "error", "opaque value", "closure", "string", "assembled slice", "length", "spread values", "enumerated string", "pointer to a local"}[k]
}

func bval(t string) *sval { return &sval{k: sBool, t: t} }
func nval(t string) *sval { return &sval{k: sN, t: t} }

// ---------------------------------------------------------------- store, scopes, path facts

type optFact struct {
	some bool
	v    string   // the variable bound to the content
	ctor string   // "" = not known
	args []string // variables bound to the constructor's arguments
}

type store struct {
	cells map[int]*sval
	bools map[string]bool
	opts  map[string]*optFact
}

func newStore() *store {
	return &store{cells: map[int]*sval{}, bools: map[string]bool{}, opts: map[string]*optFact{}}
}

func (s *store) clone() *store {
	n := newStore()
	for i, v := range s.cells {
		n.cells[i] = v.clone()
	}
	for t, b := range s.bools {
		n.bools[t] = b
	}
	for t, f := range s.opts {
		c := *f
		n.opts[t] = &c
	}
	return n
}

// A scope is shared by all the paths that run through its block: a name maps to one cell id,
// every path has its own store.  defPos remembers the declaring identifier, so that the
// declaration met again on another path is a declaration, not Go's `:=` on an existing variable.
type scope struct {
	parent *scope
	names  map[string]int
	defPos map[string]token.Pos
}

func newScope(p *scope) *scope {
	return &scope{parent: p, names: map[string]int{}, defPos: map[string]token.Pos{}}
}

func (s *scope) lookup(n string) (int, bool) {
	for x := s; x != nil; x = x.parent {
		if id, ok := x.names[n]; ok {
			return id, true
		}
	}
	return 0, false
}

// ---------------------------------------------------------------- output tree

type node interface{}
type nLeaf struct{ text string }
type nIf struct {
	cond string
	a, b node
}
type nMatchOpt struct {
	term, v    string
	some, none node
}
type ctorArm struct {
	pat  string
	vars []string
	body node
}
type nMatchCtor struct {
	term string
	arms []ctorArm
}
type nLoop struct {
	res, list, acc, elem, init string
	body, rest                 node
}

type nBind struct {
	v, term string
	rest    node
}

// nJoin: the paths of an inlined call that run to its end yield the tuple of the variables the call
// changes (leaves `Ok tuple` of sub), what follows the call is translated once
type nJoin struct {
	pat  string
	sub  node
	rest node
}

func render(n node, ind string) string {
	switch n := n.(type) {
	case nBind:
		return ind + "do " + n.v + " <- " + n.term + ";\n" + render(n.rest, ind)
	case nJoin:
		return ind + "do " + n.pat + " <- (\n" + render(n.sub, ind+"    ") + ");\n" + render(n.rest, ind)
	case nLeaf:
		return ind + n.text
	case nIf:
		return ind + "if " + n.cond + " then\n" + render(n.a, ind+"  ") + "\n" + ind + "else\n" + render(n.b, ind+"  ")
	case nMatchOpt:
		return ind + "match " + n.term + " with\n" + ind + "| Some " + n.v + " =>\n" + render(n.some, ind+"    ") + "\n" + ind + "| None =>\n" + render(n.none, ind+"    ") + "\n" + ind + "end"
	case nMatchCtor:
		s := ind + "match " + n.term + " with\n"
		for _, a := range n.arms {
			s += ind + "| " + a.pat + " =>\n" + render(a.body, ind+"    ") + "\n"
		}
		return s + ind + "end"
	case nLoop:
		return ind + "do " + n.res + " <- loop_res (fun " + n.acc + " " + n.elem + " =>\n" + render(n.body, ind+"    ") + ")\n" + ind + "  " + n.list + " " + n.init + ";\n" + render(n.rest, ind)
	}
	panic("render: unknown node")
}

func mentions(n node, v string) bool {
	s := render(n, "")
	for i := 0; i+len(v) <= len(s); i++ {
		if s[i:i+len(v)] == v {
			before := i == 0 || !isIdentChar(s[i-1])
			after := i+len(v) == len(s) || !isIdentChar(s[i+len(v)])
			if before && after {
				return true
			}
		}
	}
	return false
}

func isIdentChar(c byte) bool {
	return c == '_' || c == '\'' || (c >= '0' && c <= '9') || (c >= 'a' && c <= 'z') || (c >= 'A' && c <= 'Z')
}

// smart constructors: a test whose outcomes do not differ disappears
func mkIf(c string, a, b node) node {
	if render(a, "") == render(b, "") {
		return a
	}
	return nIf{c, a, b}
}

func mkMatchOpt(term, v string, some, none node) node {
	if !mentions(some, v) && render(some, "") == render(none, "") {
		return some
	}
	return nMatchOpt{term, v, some, none}
}

func mkMatchCtor(term string, arms []ctorArm) node {
	same := true
	first := render(arms[0].body, "")
	for _, a := range arms {
		for _, v := range a.vars {
			if mentions(a.body, v) {
				same = false
			}
		}
		if render(a.body, "") != first {
			same = false
		}
	}
	if same {
		return arms[0].body
	}
	return nMatchCtor{term, arms}
}

// ---------------------------------------------------------------- the group's tables

type ctorInfo struct {
	goType string   // as written in a type switch case, e.g. "*types.V2FileContractRenewal"
	coq    string   // constructor
	args   []string // meaning of the constructor's arguments (names used in oracle keys)
}

type impTables struct {
	imports map[string]string // local package name -> import path the tables assume
	// value of a parameter of the given Go type (nil, "" = the parameter has no Coq binder)
	param func(x *ictx, goType, name string) (*sval, string)
	// the value of one element of a list of the given element type, rooted at Coq variable v
	elem func(x *ictx, at ast.Node, elemType, v string) *sval
	// what a pointer of the given target type points to, once its content is bound to v
	target func(x *ictx, at ast.Node, goType, v string) *sval
	// constructors of an interface type
	ctors map[string][]ctorInfo
	// the struct types composite literals may build: type -> field -> kind ("" struct type name for sStruct)
	structs map[string]map[string]string
	// zero value of a struct type
	zero func(x *ictx, at ast.Node, goType string) *sval
	// methods on struct values
	method func(x *ictx, at ast.Node, recv *sval, name string, args []*sval, st *store) *sval
	// oracle calls on the tx parameter: results
	oracle func(x *ictx, at ast.Node, name string, args []*sval) []*sval
	// identity conversions T(x)
	conversions map[string]skind
	// the accumulator struct: Go type, Coq constructor, fields in constructor order with their projections
	accType   string
	accCtor   string
	accFields []accField
	// oracle comparison a.Cmp(b) OP 0: the bool term, or "" when the model does not know it
	cmp func(x *ictx, at ast.Node, a, b *sval, op token.Token, st *store) string
	// functions of other files / packages the group knows (append on an assembled slice, strings.Join, ..)
	extern func(x *ictx, at *ast.CallExpr, name string, args []*sval, ellipsis bool) ([]*sval, bool)
	// zero value of `var x T`
	zeroVar func(x *ictx, at ast.Node, goType string) *sval
	// a loop the group translates as a whole (true = handled, st updated)
	rangeHook func(x *ictx, s *ast.RangeStmt, l *sval, sc *scope, st *store) bool
	// types.Currency values are numbers: IsZero / Equals / Cmp on terms, Add / Sub checked (cadd / csub, Panic)
	currency bool
	// functions the group knows although the file defines them (they touch the database)
	externFirst map[string]bool
	// inlined calls without results: join the paths that return instead of duplicating what follows
	joinCalls bool
	// a loop the group translates itself: the node of the whole rest of the function
	rangeNode func(x *ictx, s *ast.RangeStmt, l *sval, sc *scope, st *store, fr *frame) (node, bool)
	// package-level constants (nil = none)
	constant func(x *ictx, at ast.Node, q string) *sval
	// join an if whose branches only assign (no return / continue inside) instead of duplicating what follows
	mergeIfs bool
}

type accField struct {
	goName, proj, elemType string
	inject                 func(x *ictx, at ast.Node, v *sval) string
}

// ---------------------------------------------------------------- context

type ictx struct {
	g      *gofile
	tb     *impTables
	ncell  int
	nvar   map[string]int
	leaves int
	depth  int
}

type frame struct {
	ret    func(st *store, vals []*sval, at ast.Node) node
	cont   func(st *store, at ast.Node) node // continue
	brk    func(st *store) node              // break (switch)
	named  []int                             // cells of the named results ("_" / unnamed: -1)
	nres   int
	inLoop bool
}

func (x *ictx) fresh(prefix string) string {
	x.nvar[prefix]++
	return prefix + strconv.Itoa(x.nvar[prefix])
}

func (x *ictx) newCell(st *store, v *sval) int {
	x.ncell++
	st.cells[x.ncell] = v
	return x.ncell
}

func (x *ictx) leaf(text string) node {
	x.leaves++
	if x.leaves > 4000 {
		panic(unsupported{token.NoPos, "the decision tree of the function has more than 4000 leaves (continuations are duplicated at every undecided test)"})
	}
	return nLeaf{text}
}

func (x *ictx) isPkg(id *ast.Ident, sc *scope) bool {
	if _, bound := sc.lookup(id.Name); bound {
		return false
	}
	_, ok := x.g.imports[id.Name]
	return ok
}

func (x *ictx) usesPkg(n ast.Node, name string) {
	want, ok := x.tb.imports[name]
	if !ok {
		fail(n, "package %s is not in the supported subset", name)
	}
	if got := x.g.imports[name]; got != want {
		fail(n, "package name %s refers to %q, the tables assume %q", name, got, want)
	}
}

// ---------------------------------------------------------------- statements

type kont func(st *store) node

func (x *ictx) exec(list []ast.Stmt, sc *scope, st *store, fr *frame, k kont) node {
	if len(list) == 0 {
		return k(st)
	}
	rest := func(st *store) node { return x.exec(list[1:], sc, st, fr, k) }
	switch s := list[0].(type) {
	case *ast.EmptyStmt:
		return rest(st)

	case *ast.BlockStmt:
		return x.exec(s.List, newScope(sc), st, fr, rest)

	case *ast.ReturnStmt:
		if len(s.Results) == 0 {
			if fr.nres != 0 && len(fr.named) != fr.nres {
				fail(s, "bare return in a function without named results")
			}
			var vals []*sval
			for _, c := range fr.named {
				if c < 0 {
					vals = append(vals, nil)
				} else {
					vals = append(vals, st.cells[c].clone())
				}
			}
			return fr.ret(st, vals, s)
		}
		if len(s.Results) != fr.nres {
			fail(s, "return with %d values in a function with %d results", len(s.Results), fr.nres)
		}
		return x.evalList(s.Results, sc, st, fr, func(st *store, vals []*sval) node { return fr.ret(st, vals, s) })

	case *ast.BranchStmt:
		if s.Label != nil {
			fail(s, "labelled %s", s.Tok)
		}
		switch s.Tok {
		case token.CONTINUE:
			if fr.cont == nil {
				fail(s, "continue outside a loop of this function")
			}
			return fr.cont(st, s)
		case token.BREAK:
			if fr.brk == nil {
				fail(s, "break is only supported inside a switch")
			}
			return fr.brk(st)
		}
		fail(s, "%s is not supported here", s.Tok)

	case *ast.ExprStmt:
		call, ok := s.X.(*ast.CallExpr)
		if !ok {
			fail(s, "expression statement that is not a call")
		}
		return x.callStmt(call, sc, st, fr, rest)

	case *ast.AssignStmt:
		return x.assign(s, sc, st, fr, rest)

	case *ast.DeclStmt:
		gd, ok := s.Decl.(*ast.GenDecl)
		if !ok || gd.Tok != token.VAR || x.tb.zeroVar == nil {
			fail(s, "declaration is not in the supported subset")
		}
		for _, sp := range gd.Specs {
			vs := sp.(*ast.ValueSpec)
			if vs.Type == nil || len(vs.Values) != 0 {
				fail(vs, "only `var x T` is supported")
			}
			for _, n := range vs.Names {
				if n.Name != "_" {
					sc.names[n.Name] = x.newCell(st, x.tb.zeroVar(x, vs, exprString(vs.Type)))
					sc.defPos[n.Name] = n.Pos()
				}
			}
		}
		return rest(st)

	case *ast.IfStmt:
		if merged, ok := x.mergeIf(s, sc, st, fr); ok {
			return rest(merged)
		}
		inner := newScope(sc)
		body := func(st *store) node {
			return x.cond(s.Cond, inner, st, fr,
				func(st *store) node { return x.exec(s.Body.List, newScope(inner), st, fr, rest) },
				func(st *store) node {
					if s.Else == nil {
						return rest(st)
					}
					return x.exec([]ast.Stmt{s.Else}, inner, st, fr, rest)
				})
		}
		if s.Init != nil {
			return x.exec([]ast.Stmt{s.Init}, inner, st, fr, body)
		}
		return body(st)

	case *ast.SwitchStmt:
		return x.switchStmt(s, sc, st, fr, rest)

	case *ast.TypeSwitchStmt:
		return x.typeSwitch(s, sc, st, fr, rest)

	case *ast.RangeStmt:
		return x.rangeStmt(s, sc, st, fr, rest)
	}
	fail(list[0], "statement is not in the supported subset")
	return nil
}

func (x *ictx) switchStmt(s *ast.SwitchStmt, sc *scope, st *store, fr *frame, after kont) node {
	inner := newScope(sc)
	if s.Tag != nil {
		// switch tag { case e: .. }  =  tagless switch over tag == e, the tag evaluated once
		if s.Init != nil {
			fail(s, "tagged switch with an init statement")
		}
		tag := &ast.Ident{NamePos: s.Tag.Pos(), Name: "@tag"}
		cp := *s
		cp.Tag = nil
		body := *s.Body
		body.List = nil
		for _, c := range s.Body.List {
			cc := *(c.(*ast.CaseClause))
			var conds []ast.Expr
			for _, e := range cc.List {
				conds = append(conds, &ast.BinaryExpr{X: tag, OpPos: e.Pos(), Op: token.EQL, Y: e})
			}
			if cc.List != nil {
				cc.List = conds
			}
			body.List = append(body.List, &cc)
		}
		cp.Body = &body
		return x.eval(s.Tag, sc, st, fr, func(st *store, v *sval) node {
			inner.names["@tag"] = x.newCell(st, v)
			return x.switchStmt(&cp, inner, st, fr, after)
		})
	}
	var clauses []*ast.CaseClause
	def := -1
	for i, c := range s.Body.List {
		cc := c.(*ast.CaseClause)
		clauses = append(clauses, cc)
		if cc.List == nil {
			def = i
		}
	}
	fr2 := *fr
	fr2.brk = after
	// body i, falling through into body i+1 when it ends in `fallthrough`
	var runBody func(i int, st *store) node
	runBody = func(i int, st *store) node {
		body := clauses[i].Body
		if n := len(body); n > 0 {
			if b, ok := body[n-1].(*ast.BranchStmt); ok && b.Tok == token.FALLTHROUGH {
				if i+1 >= len(clauses) {
					fail(b, "fallthrough in the last clause")
				}
				return x.exec(body[:n-1], newScope(inner), st, &fr2, func(st *store) node { return runBody(i+1, st) })
			}
		}
		for _, b := range body {
			ast.Inspect(b, func(n ast.Node) bool {
				if br, ok := n.(*ast.BranchStmt); ok && br.Tok == token.FALLTHROUGH {
					fail(br, "fallthrough that is not the last statement of a clause")
				}
				_, nested := n.(*ast.SwitchStmt)
				_, nestedT := n.(*ast.TypeSwitchStmt)
				return !nested && !nestedT
			})
		}
		return x.exec(body, newScope(inner), st, &fr2, after)
	}
	// conditions in source order, the default last
	var try func(i, j int, st *store) node
	try = func(i, j int, st *store) node {
		for i < len(clauses) && clauses[i].List == nil {
			i, j = i+1, 0
		}
		if i >= len(clauses) {
			if def >= 0 {
				return runBody(def, st)
			}
			return after(st)
		}
		if j >= len(clauses[i].List) {
			return try(i+1, 0, st)
		}
		return x.cond(clauses[i].List[j], inner, st, fr,
			func(st *store) node { return runBody(i, st) },
			func(st *store) node { return try(i, j+1, st) })
	}
	start := func(st *store) node { return try(0, 0, st) }
	if s.Init != nil {
		return x.exec([]ast.Stmt{s.Init}, inner, st, fr, start)
	}
	return start(st)
}

func (x *ictx) typeSwitch(s *ast.TypeSwitchStmt, sc *scope, st *store, fr *frame, after kont) node {
	if s.Init != nil {
		fail(s, "type switch with an init statement")
	}
	var bind *ast.Ident
	var subject ast.Expr
	switch a := s.Assign.(type) {
	case *ast.AssignStmt:
		bind = a.Lhs[0].(*ast.Ident)
		subject = a.Rhs[0].(*ast.TypeAssertExpr).X
	case *ast.ExprStmt:
		subject = a.X.(*ast.TypeAssertExpr).X
	}
	return x.eval(subject, sc, st, fr, func(st *store, v *sval) node {
		if v.k != sOpt || !v.iface {
			fail(subject, "type switch on a %s (only interface values of the constructor table)", v.k)
		}
		ctors, ok := x.tb.ctors[v.goType]
		if !ok {
			fail(subject, "interface type %s has no constructor table", v.goType)
		}
		fr2 := *fr
		fr2.brk = after
		// clause for nil / for each constructor / default
		nilClause, defClause := -1, -1
		byCtor := map[string]int{}
		for i, c := range s.Body.List {
			cc := c.(*ast.CaseClause)
			if cc.List == nil {
				defClause = i
				continue
			}
			for _, t := range cc.List {
				ts := types.ExprString(t)
				if ts == "nil" {
					nilClause = i
					continue
				}
				found := false
				for _, ci := range ctors {
					if ci.goType == ts {
						if _, dup := byCtor[ci.coq]; dup {
							fail(t, "type %s listed twice", ts)
						}
						byCtor[ci.coq] = i
						found = true
					}
				}
				if !found {
					fail(t, "type %s is not a constructor of %s in the constructor table", ts, v.goType)
				}
			}
		}
		run := func(i int, st *store) node {
			if i < 0 {
				return after(st)
			}
			cc := s.Body.List[i].(*ast.CaseClause)
			inner := newScope(sc)
			if bind != nil && bind.Name != "_" {
				inner.names[bind.Name] = x.newCell(st, &sval{k: sOpaque})
			}
			for _, b := range cc.Body {
				if br, ok := b.(*ast.BranchStmt); ok && br.Tok == token.FALLTHROUGH {
					fail(br, "fallthrough in a type switch")
				}
			}
			return x.exec(cc.Body, inner, st, &fr2, after)
		}
		pick := func(i int) int {
			if i >= 0 {
				return i
			}
			return defClause
		}
		onCtor := func(st *store) node {
			f := st.opts[v.t]
			if f.ctor != "" {
				i, ok := byCtor[f.ctor]
				if !ok {
					i = -1
				}
				return run(pick(i), st)
			}
			var arms []ctorArm
			for _, ci := range ctors {
				s2 := st.clone()
				var vars []string
				for range ci.args {
					vars = append(vars, x.fresh("a"))
				}
				s2.opts[v.t] = &optFact{some: true, v: f.v, ctor: ci.coq, args: vars}
				i, ok := byCtor[ci.coq]
				if !ok {
					i = -1
				}
				pat := ci.coq
				if len(vars) != 0 {
					pat += " " + strings.Join(vars, " ")
				}
				arms = append(arms, ctorArm{pat, vars, run(pick(i), s2)})
			}
			return mkMatchCtor(f.v, arms)
		}
		return x.branchOpt(v, st, onCtor, func(st *store) node { return run(pick(nilClause), st) })
	})
}

// rangeStmt: for _, v := range xs { body } carrying the accumulator struct
func (x *ictx) rangeStmt(s *ast.RangeStmt, sc *scope, st *store, fr *frame, after kont) node {
	if fr.inLoop {
		fail(s, "nested loop")
	}
	if x.depth != 1 && x.tb.rangeHook == nil && x.tb.rangeNode == nil {
		fail(s, "loop inside an inlined function or closure")
	}
	if s.Tok != token.DEFINE {
		fail(s, "range without :=")
	}
	if s.Key != nil {
		if id, ok := s.Key.(*ast.Ident); !ok || id.Name != "_" {
			fail(s.Key, "the index variable of a range loop is not supported")
		}
	}
	return x.eval(s.X, sc, st, fr, func(st *store, l *sval) node {
		if l.k != sList {
			fail(s.X, "range over a %s", l.k)
		}
		if x.tb.rangeHook != nil && x.tb.rangeHook(x, s, l, sc, st) {
			return after(st)
		}
		if x.tb.rangeNode != nil {
			if n, ok := x.tb.rangeNode(x, s, l, sc, st, fr); ok {
				return n
			}
		}
		// the carried cell: the one value of the accumulator type
		acc := -1
		for id, v := range st.cells {
			if v != nil && v.k == sStruct && v.goType == x.tb.accType {
				if acc >= 0 {
					fail(s, "two values of type %s are live at the loop: which one the loop carries is not known", x.tb.accType)
				}
				acc = id
			}
		}
		if acc < 0 {
			fail(s, "no value of type %s to carry through the loop", x.tb.accType)
		}
		init := x.accTerm(st.cells[acc])
		accVar, elemVar, resVar := x.fresh("ch"), x.fresh("d"), x.fresh("ch")
		body := st.clone()
		x.setAcc(body.cells[acc], accVar)
		snapshot := map[int]string{}
		for id, v := range body.cells {
			if id != acc {
				snapshot[id] = v.String()
			}
		}
		inner := newScope(sc)
		if s.Value != nil {
			id, ok := s.Value.(*ast.Ident)
			if !ok {
				fail(s.Value, "range value is not an identifier")
			}
			if id.Name != "_" {
				inner.names[id.Name] = x.newCell(body, x.tb.elem(x, s.X, l.goType, elemVar))
			}
		}
		next := func(st *store, at ast.Node) node {
			for id, was := range snapshot {
				if st.cells[id].String() != was {
					fail(at, "the loop changes a variable declared outside it other than the %s result (from %s to %s): only the result struct is carried", x.tb.accType, was, st.cells[id].String())
				}
			}
			return x.leaf("Ok " + x.accTerm(st.cells[acc]))
		}
		fr2 := *fr
		fr2.inLoop = true
		fr2.brk = nil
		fr2.cont = next
		fr2.ret = func(st *store, vals []*sval, at ast.Node) node {
			if len(vals) == 0 || vals[len(vals)-1] == nil || vals[len(vals)-1].k != sErr {
				fail(at, "return inside a loop in a function without error result")
			}
			if vals[len(vals)-1].isNil {
				fail(at, "a successful return inside a loop is not supported")
			}
			return x.leaf("Err EInvalid")
		}
		bodyNode := x.exec(s.Body.List, newScope(inner), body, &fr2, func(st *store) node { return next(st, s) })
		x.setAcc(st.cells[acc], resVar)
		return nLoop{res: resVar, list: l.t, acc: accVar, elem: elemVar, init: init, body: bodyNode, rest: after(st)}
	})
}

// accTerm: the Coq record of an accumulator struct value
func (x *ictx) accTerm(v *sval) string {
	var parts []string
	whole := ""
	for i, f := range x.tb.accFields {
		t := v.fields[f.goName].t
		parts = append(parts, t)
		if strings.HasPrefix(t, "("+f.proj+" ") && strings.HasSuffix(t, ")") {
			w := t[len(f.proj)+2 : len(t)-1]
			if i == 0 {
				whole = w
			} else if w != whole {
				whole = ""
			}
		} else {
			whole = ""
		}
	}
	if whole != "" && !strings.ContainsAny(whole, " ()") {
		return whole
	}
	return "(" + x.tb.accCtor + " " + strings.Join(parts, " ") + ")"
}

func (x *ictx) setAcc(v *sval, coqVar string) {
	for _, f := range x.tb.accFields {
		v.fields[f.goName] = &sval{k: sList, t: "(" + f.proj + " " + coqVar + ")", goType: f.elemType}
	}
}

// ---------------------------------------------------------------- assignments

func (x *ictx) assign(s *ast.AssignStmt, sc *scope, st *store, fr *frame, k kont) node {
	if s.Tok != token.DEFINE && s.Tok != token.ASSIGN {
		fail(s, "assignment operator %s is not supported", s.Tok)
	}
	done := func(st *store, vals []*sval) node {
		if len(vals) != len(s.Lhs) {
			fail(s, "assignment of %d values to %d targets", len(vals), len(s.Lhs))
		}
		if s.Tok == token.DEFINE {
			anyNew := false
			for _, l := range s.Lhs {
				id, ok := l.(*ast.Ident)
				if !ok {
					fail(l, "target of := must be a variable")
				}
				if _, here := sc.names[id.Name]; (!here || sc.defPos[id.Name] == id.Pos()) && id.Name != "_" {
					anyNew = true
				}
			}
			if !anyNew {
				fail(s, "no new variables on the left of :=")
			}
		}
		for i, l := range s.Lhs {
			x.store(l, vals[i], s.Tok == token.DEFINE, sc, st)
		}
		return k(st)
	}
	if len(s.Rhs) == 1 && len(s.Lhs) > 1 {
		call, ok := s.Rhs[0].(*ast.CallExpr)
		if !ok {
			fail(s, "multi-valued assignment from something that is not a call")
		}
		return x.call(call, sc, st, fr, done)
	}
	return x.evalList(s.Rhs, sc, st, fr, done)
}

func (x *ictx) store(l ast.Expr, v *sval, define bool, sc *scope, st *store) {
	if v == nil {
		fail(l, "assignment of a value the translator does not track")
	}
	v = v.clone() // value semantics
	if id, ok := l.(*ast.Ident); ok {
		if id.Name == "_" {
			return
		}
		if define {
			if c, here := sc.names[id.Name]; here {
				if sc.defPos[id.Name] != id.Pos() {
					x.checkSameKind(l, st.cells[c], v)
				}
				st.cells[c] = v
				return
			}
			sc.names[id.Name] = x.newCell(st, v)
			sc.defPos[id.Name] = id.Pos()
			return
		}
		c, ok := sc.lookup(id.Name)
		if !ok {
			fail(id, "assignment to %s, which is not a local variable", id.Name)
		}
		x.checkSameKind(l, st.cells[c], v)
		st.cells[c] = v
		return
	}
	if define {
		fail(l, "target of := must be a variable")
	}
	if star, ok := l.(*ast.StarExpr); ok { // *p = v through a pointer to a local
		id, ok := star.X.(*ast.Ident)
		if !ok {
			fail(l, "assignment through a pointer expression")
		}
		c, ok := sc.lookup(id.Name)
		if !ok || st.cells[c] == nil || st.cells[c].k != sRef {
			fail(l, "assignment through %s, which is not a pointer to a local variable", id.Name)
		}
		x.refStore(l, st.cells[c], v, st)
		return
	}
	// field path below a local struct value
	var path []string
	e := l
	for {
		switch y := e.(type) {
		case *ast.SelectorExpr:
			path = append([]string{y.Sel.Name}, path...)
			e = y.X
			continue
		case *ast.ParenExpr:
			e = y.X
			continue
		}
		break
	}
	root, ok := e.(*ast.Ident)
	if !ok {
		fail(l, "assignment target is not a field path of a local variable")
	}
	c, ok := sc.lookup(root.Name)
	if !ok {
		fail(root, "assignment to %s, which is not a local variable", root.Name)
	}
	cur := st.cells[c]
	for i, f := range path {
		if cur == nil || cur.k != sStruct {
			fail(l, "assignment through %s, which is not a struct value (pointers are not followed)", strings.Join(append([]string{root.Name}, path[:i]...), "."))
		}
		nxt, ok := cur.fields[f]
		if !ok {
			fail(l, "field %s of %s is not known to the model: an assignment to it cannot be translated", f, cur.goType)
		}
		if i == len(path)-1 {
			x.checkSameKind(l, nxt, v)
			cur.fields[f] = v
			return
		}
		cur = nxt
	}
}

func (x *ictx) checkSameKind(at ast.Node, old, v *sval) {
	if old == nil {
		return
	}
	if old.k != v.k || old.goType != v.goType || old.iface != v.iface {
		fail(at, "assignment of a %s %s to a %s %s", v.k, v.goType, old.k, old.goType)
	}
}

// ---------------------------------------------------------------- conditions

// cond executes kT / kF depending on the Go condition c, evaluating it in Go's order
func (x *ictx) cond(c ast.Expr, sc *scope, st *store, fr *frame, kT, kF kont) node {
	switch e := c.(type) {
	case *ast.ParenExpr:
		return x.cond(e.X, sc, st, fr, kT, kF)
	case *ast.UnaryExpr:
		if e.Op == token.NOT {
			return x.cond(e.X, sc, st, fr, kF, kT)
		}
	case *ast.BinaryExpr:
		switch e.Op {
		case token.LAND:
			return x.cond(e.X, sc, st, fr, func(st *store) node { return x.cond(e.Y, sc, st, fr, kT, kF) }, kF)
		case token.LOR:
			return x.cond(e.X, sc, st, fr, kT, func(st *store) node { return x.cond(e.Y, sc, st, fr, kT, kF) })
		case token.EQL, token.NEQ:
			other := ast.Expr(nil)
			if isNilIdent(e.Y, sc) {
				other = e.X
			} else if isNilIdent(e.X, sc) {
				other = e.Y
			}
			if other != nil {
				if e.Op == token.EQL {
					kT, kF = kF, kT
				}
				return x.eval(other, sc, st, fr, func(st *store, v *sval) node {
					switch v.k {
					case sErr:
						if v.isNil {
							return kF(st)
						}
						return kT(st)
					case sOpt:
						return x.branchOpt(v, st, kT, kF)
					}
					fail(e, "comparison of a %s with nil", v.k)
					return nil
				})
			}
		}
	}
	return x.eval(c, sc, st, fr, func(st *store, v *sval) node {
		if v.k != sBool {
			fail(c, "condition of kind %s", v.k)
		}
		return x.branch(v.t, st, kT, kF)
	})
}

func isNilIdent(e ast.Expr, sc *scope) bool {
	id, ok := e.(*ast.Ident)
	if !ok || id.Name != "nil" {
		return false
	}
	_, bound := sc.lookup("nil")
	return !bound
}

// branch on an atomic bool term
func (x *ictx) branch(t string, st *store, kT, kF kont) node {
	switch t {
	case "true":
		return kT(st)
	case "false":
		return kF(st)
	}
	if strings.HasPrefix(t, "(negb ") && strings.HasSuffix(t, ")") {
		return x.branch(t[6:len(t)-1], st, kF, kT)
	}
	if b, known := st.bools[t]; known {
		if b {
			return kT(st)
		}
		return kF(st)
	}
	sT, sF := st.clone(), st.clone()
	sT.bools[t] = true
	sF.bools[t] = false
	return mkIf(t, kT(sT), kF(sF))
}

// branchOpt: some / none of a pointer or interface value
func (x *ictx) branchOpt(v *sval, st *store, kSome, kNone kont) node {
	if f, known := st.opts[v.t]; known {
		if f.some {
			return kSome(st)
		}
		return kNone(st)
	}
	bound := x.fresh("r")
	sS, sN := st.clone(), st.clone()
	sS.opts[v.t] = &optFact{some: true, v: bound}
	sN.opts[v.t] = &optFact{some: false}
	return mkMatchOpt(v.t, bound, kSome(sS), kNone(sN))
}

// deref: the struct a pointer points to; Panic on a path where it is nil
func (x *ictx) deref(at ast.Node, v *sval, st *store, k func(st *store, v *sval) node) node {
	if v.k != sOpt || v.iface {
		fail(at, "dereference of a %s", v.k)
	}
	return x.branchOpt(v, st,
		func(st *store) node { return k(st, x.tb.target(x, at, v.goType, st.opts[v.t].v)) },
		func(st *store) node { return x.leaf("Panic") })
}

// ---------------------------------------------------------------- expressions

type vkont func(st *store, v *sval) node

func (x *ictx) evalList(xs []ast.Expr, sc *scope, st *store, fr *frame, k func(st *store, vals []*sval) node) node {
	var vals []*sval
	var step func(i int, st *store) node
	step = func(i int, st *store) node {
		if i == len(xs) {
			return k(st, append([]*sval(nil), vals[:i]...))
		}
		return x.eval(xs[i], sc, st, fr, func(st *store, v *sval) node {
			vals = append(vals[:i], v)
			return step(i+1, st)
		})
	}
	return step(0, st)
}

func (x *ictx) eval(e ast.Expr, sc *scope, st *store, fr *frame, k vkont) node {
	switch e := e.(type) {
	case *ast.ParenExpr:
		return x.eval(e.X, sc, st, fr, k)

	case *ast.Ident:
		if c, ok := sc.lookup(e.Name); ok {
			v := st.cells[c]
			if v == nil {
				fail(e, "variable %s has a value the translator does not track", e.Name)
			}
			return k(st, v.clone())
		}
		switch e.Name {
		case "true", "false":
			return k(st, bval(e.Name))
		case "nil":
			return k(st, &sval{k: sErr, isNil: true}) // only meaningful as an error result
		}
		fail(e, "identifier %s is not a local variable or parameter", e.Name)

	case *ast.BasicLit:
		switch e.Kind {
		case token.INT:
			n, err := strconv.ParseUint(e.Value, 0, 64)
			if err != nil {
				fail(e, "integer literal %s", e.Value)
			}
			return k(st, nval(strconv.FormatUint(n, 10)))
		case token.STRING:
			lit, err := strconv.Unquote(e.Value)
			if err != nil {
				fail(e, "string literal %s", e.Value)
			}
			return k(st, &sval{k: sStr, parts: []strPart{{lit: lit}}})
		}
		fail(e, "literal %s is not supported", e.Value)

	case *ast.SelectorExpr:
		if id, ok := e.X.(*ast.Ident); ok && x.isPkg(id, sc) {
			if x.tb.constant != nil {
				x.usesPkg(e, id.Name)
				if v := x.tb.constant(x, e, id.Name+"."+e.Sel.Name); v != nil {
					return k(st, v)
				}
			}
			fail(e, "%s.%s is not in the supported subset", id.Name, e.Sel.Name)
		}
		return x.eval(e.X, sc, st, fr, func(st *store, r *sval) node {
			sel := func(st *store, r *sval) node {
				if r.k != sStruct {
					fail(e, "field %s of a %s", e.Sel.Name, r.k)
				}
				f, ok := r.fields[e.Sel.Name]
				if !ok {
					fail(e, "field %s of %s is not known to the model", e.Sel.Name, r.goType)
				}
				return k(st, f.clone())
			}
			if r.k == sOpt && !r.iface {
				return x.deref(e, r, st, sel)
			}
			return sel(st, r)
		})

	case *ast.StarExpr:
		return x.eval(e.X, sc, st, fr, func(st *store, p *sval) node {
			if p.k == sRef {
				return k(st, x.refLoad(e, p, st))
			}
			return x.deref(e, p, st, k)
		})

	case *ast.UnaryExpr:
		if e.Op == token.AND {
			var path []string
			y := e.X
			for {
				if se, ok := y.(*ast.SelectorExpr); ok {
					path = append([]string{se.Sel.Name}, path...)
					y = se.X
					continue
				}
				if pe, ok := y.(*ast.ParenExpr); ok {
					y = pe.X
					continue
				}
				break
			}
			id, ok := y.(*ast.Ident)
			if !ok {
				fail(e, "& of something that is not a field path of a local variable")
			}
			c, ok := sc.lookup(id.Name)
			if !ok {
				fail(e, "& of %s, which is not a local variable", id.Name)
			}
			r := &sval{k: sRef, cell: c, path: path}
			x.refLoad(e, r, st) // the path must exist
			return k(st, r)
		}
		if e.Op == token.NOT {
			return x.cond(e, sc, st, fr, func(st *store) node { return k(st, bval("true")) }, func(st *store) node { return k(st, bval("false")) })
		}
		fail(e, "unary operator %s", e.Op)

	case *ast.BinaryExpr:
		return x.binary(e, sc, st, fr, k)

	case *ast.CompositeLit:
		ts := types.ExprString(e.Type)
		x.checkQualifiers(e, ts)
		shape, ok := x.tb.structs[ts]
		if !ok {
			fail(e, "composite literal of type %s is not in the struct table", ts)
		}
		if len(e.Elts) == 0 {
			return k(st, x.tb.zero(x, e, ts))
		}
		var names []string
		var exprs []ast.Expr
		for _, el := range e.Elts {
			kv, ok := el.(*ast.KeyValueExpr)
			if !ok {
				fail(el, "only keyed composite literals are supported")
			}
			id, ok := kv.Key.(*ast.Ident)
			if !ok {
				fail(kv.Key, "field name expected")
			}
			if _, known := shape[id.Name]; !known {
				fail(kv.Key, "field %s of %s is not known to the model", id.Name, ts)
			}
			names = append(names, id.Name)
			exprs = append(exprs, kv.Value)
		}
		return x.evalList(exprs, sc, st, fr, func(st *store, vals []*sval) node {
			v := x.tb.zero(x, e, ts)
			for i, n := range names {
				x.checkSameKind(exprs[i], v.fields[n], vals[i])
				v.fields[n] = vals[i].clone()
			}
			return k(st, v)
		})

	case *ast.FuncLit:
		if e.Type.Results.NumFields() != 0 {
			fail(e, "only closures without results are supported")
		}
		return k(st, &sval{k: sClosure, fn: e, sc: sc})

	case *ast.CallExpr:
		return x.call(e, sc, st, fr, func(st *store, vals []*sval) node {
			if len(vals) != 1 {
				fail(e, "call with %d results used as a value", len(vals))
			}
			return k(st, vals[0])
		})
	}
	fail(e, "expression %s is not in the supported subset", types.ExprString(e))
	return nil
}

func (x *ictx) checkQualifiers(at ast.Node, typeString string) {
	for _, m := range qualifierRe.FindAllStringSubmatch(typeString, -1) {
		x.usesPkg(at, m[1])
	}
}

func (x *ictx) binary(e *ast.BinaryExpr, sc *scope, st *store, fr *frame, k vkont) node {
	switch e.Op {
	case token.LAND, token.LOR:
		return x.cond(e, sc, st, fr, func(st *store) node { return k(st, bval("true")) }, func(st *store) node { return k(st, bval("false")) })
	case token.EQL, token.NEQ, token.LSS, token.LEQ, token.GTR, token.GEQ:
		if (e.Op == token.EQL || e.Op == token.NEQ) && (isNilIdent(e.X, sc) || isNilIdent(e.Y, sc)) {
			return x.cond(e, sc, st, fr, func(st *store) node { return k(st, bval("true")) }, func(st *store) node { return k(st, bval("false")) })
		}
		// a.Cmp(b) OP 0
		if call, ok := e.X.(*ast.CallExpr); ok {
			if sel, ok := call.Fun.(*ast.SelectorExpr); ok && sel.Sel.Name == "Cmp" && len(call.Args) == 1 {
				if lit, ok := e.Y.(*ast.BasicLit); !ok || lit.Value != "0" {
					fail(e, "Cmp is only supported in the shape a.Cmp(b) OP 0")
				}
				return x.evalList([]ast.Expr{sel.X, call.Args[0]}, sc, st, fr, func(st *store, vs []*sval) node {
					if x.tb.currency {
						a, b := vs[0], vs[1]
						if a.k == sRef {
							a = x.refLoad(e, a, st)
						}
						if a.k == sN && b.k == sN {
							return k(st, bval(cmpN(e.Op, a.t, b.t)))
						}
					}
					if vs[0].k != sCur || vs[1].k != sCur {
						fail(e, "Cmp on a %s and a %s", vs[0].k, vs[1].k)
					}
					t := x.tb.cmp(x, e, vs[0], vs[1], e.Op, st)
					if t == "" {
						fail(e, "the model has no oracle for this comparison (%s %s %s)", vs[0], e.Op, vs[1])
					}
					return k(st, bval(t))
				})
			}
		}
		return x.evalList([]ast.Expr{e.X, e.Y}, sc, st, fr, func(st *store, vs []*sval) node {
			a, b := vs[0], vs[1]
			if a.k == sStr && b.k == sEnum {
				a, b = b, a
			}
			if a.k == sEnum && b.k == sStr && (e.Op == token.EQL || e.Op == token.NEQ) {
				if len(b.parts) != 1 || b.parts[0].ph != nil || b.parts[0].join != nil {
					fail(e, "an enumerated string can only be compared with a constant")
				}
				ctor, ok := a.attrs[b.parts[0].lit]
				if !ok {
					fail(e, "the model does not distinguish the value %q of %s from the other values it lumps together", b.parts[0].lit, a.t)
				}
				t := "(" + a.goType + " " + a.t + " " + ctor + ")"
				if e.Op == token.NEQ {
					t = "(negb " + t + ")"
				}
				return k(st, bval(t))
			}
			if a.k == sLen && b.k == sN && b.t == "0" {
				switch e.Op {
				case token.NEQ, token.GTR:
					return k(st, bval(nonemptyTerm(a)))
				case token.EQL:
					t := nonemptyTerm(a)
					switch t {
					case "true":
						return k(st, bval("false"))
					case "false":
						return k(st, bval("true"))
					}
					return k(st, bval("(negb "+t+")"))
				}
				fail(e, "a length can only be compared with 0 by == != >")
			}
			if a.k != b.k {
				fail(e, "%s on a %s and a %s", e.Op, a.k, b.k)
			}
			switch a.k {
			case sN:
				return k(st, bval(cmpN(e.Op, a.t, b.t)))
			case sBool:
				if e.Op == token.EQL {
					return k(st, bval("(Bool.eqb "+a.t+" "+b.t+")"))
				} else if e.Op == token.NEQ {
					return k(st, bval("(negb (Bool.eqb "+a.t+" "+b.t+"))"))
				}
			}
			fail(e, "%s on %s values", e.Op, a.k)
			return nil
		})
	}
	if e.Op == token.ADD {
		return x.evalList([]ast.Expr{e.X, e.Y}, sc, st, fr, func(st *store, vs []*sval) node {
			if vs[0].k != sStr || vs[1].k != sStr {
				fail(e, "+ on a %s and a %s (only string concatenation)", vs[0].k, vs[1].k)
			}
			return k(st, &sval{k: sStr, parts: append(append([]strPart(nil), vs[0].parts...), vs[1].parts...)})
		})
	}
	fail(e, "binary operator %s is not supported", e.Op)
	return nil
}

// nonemptyTerm: the bool term of len(v) != 0
func nonemptyTerm(v *sval) string {
	if v.t != "" {
		return "(nonempty " + v.t + ")"
	}
	var gs []string
	for _, it := range v.items {
		if it.guard == "true" {
			return "true"
		}
		gs = append(gs, it.guard)
	}
	if len(gs) == 0 {
		return "false"
	}
	t := gs[len(gs)-1]
	for i := len(gs) - 2; i >= 0; i-- {
		t = "(" + gs[i] + " || " + t + ")"
	}
	return t
}

// ---------------------------------------------------------------- calls

func (x *ictx) callStmt(call *ast.CallExpr, sc *scope, st *store, fr *frame, k kont) node {
	return x.call(call, sc, st, fr, func(st *store, vals []*sval) node { return k(st) })
}

var logMethods = map[string]bool{"Debug": true, "Info": true, "Warn": true, "Error": true}

func (x *ictx) call(call *ast.CallExpr, sc *scope, st *store, fr *frame, k func(st *store, vals []*sval) node) node {
	ell := call.Ellipsis != token.NoPos
	if id, ok := call.Fun.(*ast.Ident); ell && !(ok && id.Name == "append" && x.tb.extern != nil) {
		fail(call, "call with ...")
	}
	one := func(st *store, v *sval) node { return k(st, []*sval{v}) }
	switch fn := call.Fun.(type) {
	case *ast.Ident:
		if c, ok := sc.lookup(fn.Name); ok {
			v := st.cells[c]
			if v == nil || v.k != sClosure {
				fail(call, "call of %s, which is not a closure defined in this function", fn.Name)
			}
			return x.evalList(call.Args, sc, st, fr, func(st *store, args []*sval) node {
				csc := newScope(v.sc)
				i := 0
				for _, f := range v.fn.Type.Params.List {
					for _, n := range f.Names {
						if i >= len(args) {
							fail(call, "too few arguments")
						}
						if n.Name != "_" {
							csc.names[n.Name] = x.newCell(st, args[i].clone())
						}
						i++
					}
					if len(f.Names) == 0 {
						fail(f, "unnamed parameter")
					}
				}
				if i != len(args) {
					fail(call, "closure call with %d arguments", len(args))
				}
				return x.joined(st, call, func(st *store, kk func(st *store) node) node {
					return x.inline(v.fn.Body, csc, st, nil, 0, call, func(st *store, vals []*sval) node { return kk(st) })
				}, func(st *store) node { return k(st, nil) })
			})
		}
		switch fn.Name {
		case "len":
			if len(call.Args) != 1 {
				fail(call, "len takes one argument")
			}
			return x.eval(call.Args[0], sc, st, fr, func(st *store, v *sval) node {
				switch v.k {
				case sList:
					return one(st, &sval{k: sLen, t: v.t})
				case sGList:
					return one(st, &sval{k: sLen, items: v.items})
				}
				fail(call, "len of a %s", v.k)
				return nil
			})
		case "append":
			if len(call.Args) < 2 {
				fail(call, "append needs a slice and at least one element")
			}
			return x.evalList(call.Args, sc, st, fr, func(st *store, vs []*sval) node {
				l := vs[0]
				if l.k == sGList {
					if out, ok := x.tb.extern(x, call, "append", vs, ell); ok {
						return k(st, out)
					}
				}
				if l.k != sList {
					fail(call.Args[0], "append to a %s", l.k)
				}
				var inj func(x *ictx, at ast.Node, v *sval) string
				for _, f := range x.tb.accFields {
					if f.elemType == l.goType {
						inj = f.inject
					}
				}
				if inj == nil {
					fail(call, "append to a slice of %s, which is not a slice of the result struct", l.goType)
				}
				t := l.t
				for i, v := range vs[1:] {
					t = "(" + t + " ++ [" + inj(x, call.Args[i+1], v) + "])"
				}
				return one(st, &sval{k: sList, t: t, goType: l.goType})
			})
		}
		if fd, ok := x.g.funcs[fn.Name]; ok && !x.tb.externFirst[fn.Name] {
			return x.evalList(call.Args, sc, st, fr, func(st *store, vs []*sval) node {
				if fd.Type.Results.NumFields() == 0 { // a procedure: its returning paths can be joined
					return x.joined(st, call, func(st *store, kk func(st *store) node) node {
						return x.callFunc(fd, vs, st, call, func(st *store, vals []*sval) node { return kk(st) })
					}, func(st *store) node { return k(st, nil) })
				}
				return x.callFunc(fd, vs, st, call, k)
			})
		}
		if x.tb.extern != nil {
			return x.evalList(call.Args, sc, st, fr, func(st *store, vs []*sval) node {
				out, ok := x.tb.extern(x, call, fn.Name, vs, false)
				if !ok {
					fail(call, "call of %s is not in the supported subset", fn.Name)
				}
				return k(st, out)
			})
		}
		if kind, ok := x.tb.conversions[fn.Name]; ok && len(call.Args) == 1 {
			return x.eval(call.Args[0], sc, st, fr, func(st *store, v *sval) node {
				if v.k != kind {
					fail(call, "conversion of a %s to %s", v.k, fn.Name)
				}
				return one(st, v)
			})
		}
		fail(call, "call of %s is not in the supported subset", fn.Name)

	case *ast.SelectorExpr:
		if id, ok := fn.X.(*ast.Ident); ok && x.isPkg(id, sc) {
			q := id.Name + "." + fn.Sel.Name
			x.usesPkg(call, id.Name)
			switch {
			case q == "fmt.Errorf" || q == "errors.New":
				return x.evalList(call.Args, sc, st, fr, func(st *store, vs []*sval) node {
					return one(st, &sval{k: sErr, isNil: false})
				})
			case id.Name == "zap":
				return x.evalList(call.Args, sc, st, fr, func(st *store, vs []*sval) node {
					return one(st, &sval{k: sOpaque})
				})
			}
			if kind, ok := x.tb.conversions[q]; ok && len(call.Args) == 1 {
				return x.eval(call.Args[0], sc, st, fr, func(st *store, v *sval) node {
					if v.k != kind {
						fail(call, "conversion of a %s to %s", v.k, q)
					}
					return one(st, v)
				})
			}
			if x.tb.extern != nil {
				return x.evalList(call.Args, sc, st, fr, func(st *store, vs []*sval) node {
					out, ok := x.tb.extern(x, call, q, vs, false)
					if !ok {
						fail(call, "call of %s is not in the supported subset", q)
					}
					return k(st, out)
				})
			}
			fail(call, "call of %s is not in the supported subset", q)
		}
		return x.eval(fn.X, sc, st, fr, func(st *store, r *sval) node {
			return x.evalList(call.Args, sc, st, fr, func(st *store, args []*sval) node {
				switch r.k {
				case sLogger:
					switch {
					case logMethods[fn.Sel.Name]:
						return k(st, nil)
					case fn.Sel.Name == "With" || fn.Sel.Name == "Named":
						return one(st, &sval{k: sLogger})
					}
					fail(call, "logger method %s is not supported (it may not return)", fn.Sel.Name)
				case sTx:
					return k(st, x.tb.oracle(x, call, fn.Sel.Name, args))
				case sRef, sN:
					if x.tb.currency {
						recv := r
						if r.k == sRef {
							recv = x.refLoad(call, r, st)
						}
						if recv.k == sN {
							return x.currencyMethod(call, recv, fn.Sel.Name, args, st, one)
						}
					}
				case sStruct:
					return one(st, x.tb.method(x, call, r, fn.Sel.Name, args, st))
				case sOpt:
					if !r.iface {
						return x.deref(call, r, st, func(st *store, tv *sval) node {
							return one(st, x.tb.method(x, call, tv, fn.Sel.Name, args, st))
						})
					}
				}
				fail(call, "method %s on a %s", fn.Sel.Name, r.k)
				return nil
			})
		})
	}
	fail(call, "call %s is not in the supported subset", types.ExprString(call))
	return nil
}

// callFunc inlines a function of the same file
func (x *ictx) callFunc(fd *ast.FuncDecl, args []*sval, st *store, at ast.Node, k func(st *store, vals []*sval) node) node {
	if fd.Recv != nil || fd.Type.TypeParams != nil || fd.Body == nil {
		fail(at, "call of %s: methods, generic functions and functions without body are not supported", fd.Name.Name)
	}
	sc := newScope(nil)
	i := 0
	for _, f := range fd.Type.Params.List {
		if _, ok := f.Type.(*ast.Ellipsis); ok {
			fail(f, "variadic parameter")
		}
		if _, ok := f.Type.(*ast.StarExpr); ok && (i >= len(args) || args[i] == nil || (args[i].k != sLogger && args[i].k != sTx && args[i].k != sRef)) {
			fail(f, "pointer parameter of an inlined function (only value parameters)")
		}
		for _, n := range f.Names {
			if i >= len(args) {
				fail(at, "too few arguments")
			}
			if n.Name != "_" {
				sc.names[n.Name] = x.newCell(st, args[i].clone())
			}
			i++
		}
		if len(f.Names) == 0 {
			fail(f, "unnamed parameter")
		}
	}
	if i != len(args) {
		fail(at, "call of %s with %d arguments", fd.Name.Name, len(args))
	}
	nres := 0
	var named []int
	if fd.Type.Results != nil {
		for _, f := range fd.Type.Results.List {
			if len(f.Names) == 0 {
				nres++
			}
			for _, n := range f.Names {
				nres++
				ts := types.ExprString(f.Type)
				switch {
				case n.Name == "_":
					if ts == "error" {
						named = append(named, x.newCell(st, &sval{k: sErr, isNil: true}))
					} else {
						named = append(named, -1)
					}
				case ts == "error":
					c := x.newCell(st, &sval{k: sErr, isNil: true})
					sc.names[n.Name] = c
					named = append(named, c)
				case ts == "bool":
					c := x.newCell(st, bval("false"))
					sc.names[n.Name] = c
					named = append(named, c)
				default:
					if _, ok := x.tb.structs[ts]; !ok {
						fail(f, "named result of type %s", ts)
					}
					c := x.newCell(st, x.tb.zero(x, f, ts))
					sc.names[n.Name] = c
					named = append(named, c)
				}
			}
		}
	}
	return x.inline(fd.Body, sc, st, named, nres, at, k)
}

func (x *ictx) inline(body *ast.BlockStmt, sc *scope, st *store, named []int, nres int, at ast.Node, k func(st *store, vals []*sval) node) node {
	x.depth++
	if x.depth > 20 {
		fail(at, "calls nested deeper than 20 (recursion?)")
	}
	fr := &frame{named: named, nres: nres}
	fr.ret = func(st *store, vals []*sval, rat ast.Node) node {
		d := x.depth
		x.depth = d - 1
		n := k(st, vals)
		x.depth = d
		return n
	}
	n := x.exec(body.List, newScope(sc), st, fr, func(st *store) node {
		if nres != 0 {
			fail(at, "control reaches the end of a function with results")
		}
		return fr.ret(st, nil, at)
	})
	x.depth--
	return n
}

// ---------------------------------------------------------------- joining an if

var mergeMarker = nLeaf{"@@merge@@"}

// mergeIf: `if c { A } [else { B }]` with an atomic, undecided c, whose branches run to their end
// on a single path (no return / continue / further undecided test): the stores of the two
// branches are joined value by value (`if c then a else b` on terms, guards on the items of
// assembled slices) and what follows the if is executed once.
func (x *ictx) mergeIf(s *ast.IfStmt, sc *scope, st *store, fr *frame) (*store, bool) {
	if !x.tb.mergeIfs || s.Init != nil {
		return nil, false
	}
	var cv *sval
	calls := 0
	inner := newScope(sc)
	n := x.eval(s.Cond, inner, st.clone(), fr, func(st2 *store, v *sval) node { calls++; cv = v; return mergeMarker })
	if n != node(mergeMarker) || calls != 1 || cv.k != sBool {
		return nil, false
	}
	t, pos := cv.t, true
	for strings.HasPrefix(t, "(negb ") && strings.HasSuffix(t, ")") {
		t, pos = t[6:len(t)-1], !pos
	}
	if t == "true" || t == "false" {
		return nil, false
	}
	if _, known := st.bools[t]; known {
		return nil, false
	}
	run := func(list []ast.Stmt, scp *scope, val bool) (*store, bool) {
		s2 := st.clone()
		s2.bools[t] = val
		var out *store
		calls := 0
		n := x.exec(list, scp, s2, fr, func(s3 *store) node { calls++; out = s3; return mergeMarker })
		return out, n == node(mergeMarker) && calls == 1
	}
	var els []ast.Stmt
	if s.Else != nil {
		els = []ast.Stmt{s.Else}
	}
	sA, okA := run(s.Body.List, newScope(inner), pos)
	if !okA {
		return nil, false
	}
	sB, okB := run(els, inner, !pos)
	if !okB {
		return nil, false
	}
	if !pos {
		sA, sB = sB, sA
	}
	out := st.clone()
	for id := range st.cells {
		m, ok := mergeVal(t, sA.cells[id], sB.cells[id])
		if !ok {
			return nil, false
		}
		out.cells[id] = m
	}
	return out, true
}

func andGuard(c, g string) string {
	if g == "true" {
		return c
	}
	return "(" + c + " && " + g + ")"
}

func mergeVal(c string, a, b *sval) (*sval, bool) {
	if a.String() == b.String() {
		return a, true
	}
	if a == nil || b == nil || a.k != b.k || a.goType != b.goType || a.iface != b.iface {
		return nil, false
	}
	switch a.k {
	case sBool, sN, sList:
		m := a.clone()
		m.t = "(if " + c + " then " + a.t + " else " + b.t + ")"
		return m, true
	case sStruct:
		m := a.clone()
		if fmt.Sprint(a.attrs) != fmt.Sprint(b.attrs) || len(a.fields) != len(b.fields) {
			return nil, false
		}
		for n, fa := range a.fields {
			fb, ok := b.fields[n]
			if !ok {
				return nil, false
			}
			f, ok := mergeVal(c, fa, fb)
			if !ok {
				return nil, false
			}
			m.fields[n] = f
		}
		return m, true
	case sGList:
		i := 0
		for i < len(a.items) && i < len(b.items) && a.items[i].String() == b.items[i].String() {
			i++
		}
		m := a.clone()
		m.items = append([]gitem(nil), a.items[:i]...)
		for _, it := range a.items[i:] {
			it.guard = andGuard(c, it.guard)
			m.items = append(m.items, it)
		}
		for _, it := range b.items[i:] {
			it.guard = andGuard("(negb "+c+")", it.guard)
			m.items = append(m.items, it)
		}
		return m, true
	}
	return nil, false
}

// exprString: a type expression as the tables spell it
func exprString(e ast.Expr) string {
	var b strings.Builder
	var w func(e ast.Expr)
	w = func(e ast.Expr) {
		switch e := e.(type) {
		case *ast.Ident:
			b.WriteString(e.Name)
		case *ast.SelectorExpr:
			w(e.X)
			b.WriteString("." + e.Sel.Name)
		case *ast.StarExpr:
			b.WriteString("*")
			w(e.X)
		case *ast.ArrayType:
			if e.Len != nil {
				fail(e, "array type")
			}
			b.WriteString("[]")
			w(e.Elt)
		default:
			fail(e, "type expression is not supported")
		}
	}
	w(e)
	return b.String()
}

// ---------------------------------------------------------------- pointers to locals, Currency as a number

func (x *ictx) refLoad(at ast.Node, r *sval, st *store) *sval {
	cur := st.cells[r.cell]
	for _, f := range r.path {
		if cur == nil || cur.k != sStruct {
			fail(at, "pointer into something that is not a struct value")
		}
		nxt, ok := cur.fields[f]
		if !ok {
			fail(at, "field %s of %s is not known to the model", f, cur.goType)
		}
		cur = nxt
	}
	if cur == nil {
		fail(at, "pointer to a variable the translator does not track")
	}
	return cur.clone()
}

func (x *ictx) refStore(at ast.Node, r *sval, v *sval, st *store) {
	if len(r.path) == 0 {
		x.checkSameKind(at, st.cells[r.cell], v)
		st.cells[r.cell] = v.clone()
		return
	}
	cur := st.cells[r.cell]
	for i, f := range r.path {
		if cur == nil || cur.k != sStruct {
			fail(at, "pointer into something that is not a struct value")
		}
		if i == len(r.path)-1 {
			x.checkSameKind(at, cur.fields[f], v)
			cur.fields[f] = v.clone()
			return
		}
		cur = cur.fields[f]
	}
}

func (x *ictx) currencyMethod(at ast.Node, recv *sval, name string, args []*sval, st *store, k vkont) node {
	arg := func() *sval {
		if len(args) != 1 {
			fail(at, "%s takes one argument", name)
		}
		a := args[0]
		if a.k == sRef {
			a = x.refLoad(at, a, st)
		}
		if a.k != sN {
			fail(at, "%s of a %s", name, a.k)
		}
		return a
	}
	switch name {
	case "IsZero":
		if len(args) != 0 {
			fail(at, "IsZero takes no argument")
		}
		return k(st, bval("("+recv.t+" =? 0)"))
	case "Equals":
		return k(st, bval("("+recv.t+" =? "+arg().t+")"))
	case "Add", "Sub":
		v := x.fresh("c")
		op := map[string]string{"Add": "cadd", "Sub": "csub"}[name]
		return nBind{v, op + " " + recv.t + " " + arg().t, k(st, nval(v))}
	}
	fail(at, "method %s of types.Currency is not in the method table", name)
	return nil
}

// joined runs an inlined call (run, which calls kk at every return) and what follows it (after).
// With tb.joinCalls the paths of the call that return are joined: the cells they leave different
// become fresh variables bound by `do (..) <- (call tree with leaves Ok (..))`.
func (x *ictx) joined(st *store, at ast.Node, run func(st *store, kk func(st *store) node) node, after func(st *store) node) node {
	if !x.tb.joinCalls {
		return run(st, after)
	}
	type exit struct {
		st  *store
		key string
	}
	var exits []exit
	sub := run(st.clone(), func(s2 *store) node {
		key := fmt.Sprintf("@@exit%d@@", len(exits))
		exits = append(exits, exit{s2, key})
		return nLeaf{key}
	})
	if len(exits) == 0 {
		return sub // the call never returns normally
	}
	// leaves that differ between the exits (only numbers / bools / lists inside tracked cells)
	type slot struct {
		cell int
		path []string
	}
	var slots []slot
	var walk func(cell int, path []string, vs []*sval)
	walk = func(cell int, path []string, vs []*sval) {
		same := true
		for _, v := range vs[1:] {
			if v.String() != vs[0].String() {
				same = false
			}
		}
		if same {
			return
		}
		switch vs[0].k {
		case sN, sBool:
			for _, v := range vs {
				if v.k != vs[0].k {
					fail(at, "the paths of the call leave values of different kinds")
				}
			}
			slots = append(slots, slot{cell, path})
		case sStruct:
			var names []string
			for n := range vs[0].fields {
				names = append(names, n)
			}
			sort.Strings(names)
			for _, n := range names {
				var fs []*sval
				for _, v := range vs {
					f, ok := v.fields[n]
					if v.k != sStruct || !ok {
						fail(at, "the paths of the call leave different struct shapes")
					}
					fs = append(fs, f)
				}
				walk(cell, append(append([]string(nil), path...), n), fs)
			}
		default:
			fail(at, "the paths of the call leave different values of kind %s in a variable: cannot be joined", vs[0].k)
		}
	}
	var ids []int
	for id := range st.cells {
		ids = append(ids, id)
	}
	sort.Ints(ids)
	for _, id := range ids {
		var vs []*sval
		for _, e := range exits {
			vs = append(vs, e.st.cells[id])
		}
		if vs[0] == nil {
			continue
		}
		walk(id, nil, vs)
	}
	if len(slots) == 0 {
		// nothing changes: the call matters only through the paths that do not return
		out := after(exits[0].st)
		for _, e := range exits {
			sub = substLeaf(sub, e.key, "Ok tt")
		}
		return nJoin{"_", sub, out}
	}
	get := func(s *store, sl slot) *sval {
		cur := s.cells[sl.cell]
		for _, f := range sl.path {
			cur = cur.fields[f]
		}
		return cur
	}
	var vars []string
	for range slots {
		vars = append(vars, x.fresh("j"))
	}
	for _, e := range exits {
		var ts []string
		for _, sl := range slots {
			ts = append(ts, get(e.st, sl).t)
		}
		t := ts[0]
		if len(ts) > 1 {
			t = "(" + strings.Join(ts, ", ") + ")"
		}
		sub = substLeaf(sub, e.key, "Ok "+t)
	}
	out := exits[0].st.clone()
	// path facts of one exit do not hold after the join
	out.bools, out.opts = map[string]bool{}, map[string]*optFact{}
	for t, b := range st.bools {
		out.bools[t] = b
	}
	for t, f := range st.opts {
		c := *f
		out.opts[t] = &c
	}
	for i, sl := range slots {
		get(out, sl).t = vars[i]
	}
	pat := vars[0]
	if len(vars) > 1 {
		pat = "(" + strings.Join(vars, ", ") + ")" // Base's `do` notation takes a pattern without quote
	}
	return nJoin{pat, sub, after(out)}
}

func substLeaf(n node, key, text string) node {
	switch n := n.(type) {
	case nLeaf:
		if n.text == key {
			return nLeaf{text}
		}
		return n
	case nIf:
		return nIf{n.cond, substLeaf(n.a, key, text), substLeaf(n.b, key, text)}
	case nMatchOpt:
		return nMatchOpt{n.term, n.v, substLeaf(n.some, key, text), substLeaf(n.none, key, text)}
	case nMatchCtor:
		arms := append([]ctorArm(nil), n.arms...)
		for i := range arms {
			arms[i].body = substLeaf(arms[i].body, key, text)
		}
		return nMatchCtor{n.term, arms}
	case nBind:
		return nBind{n.v, n.term, substLeaf(n.rest, key, text)}
	case nJoin:
		return nJoin{n.pat, substLeaf(n.sub, key, text), substLeaf(n.rest, key, text)}
	case nLoop:
		return nLoop{n.res, n.list, n.acc, n.elem, n.init, substLeaf(n.body, key, text), substLeaf(n.rest, key, text)}
	}
	return n
}
