#!/bin/bash
# seed_sweep.sh "<seeds>" <ID>... : run the quick checks on the unchanged tree for several VERIF_SEED values (false-alarm hunt)
seeds=$1; shift
export GOPROXY=off GOSUMDB=off GOTOOLCHAIN=local
for s in $seeds; do for id in "$@"; do
  VERIF_SEED=$s VERIF_NO_EVIDENCE=1 VERIF_RUNTAG=-sweep python3 /verif/tools/check.py $id --tier ${TIER:-quick} 2>&1 | grep -v "^KNOWN" | grep "VIOLATION\|^check" | cut -c1-260 | sed "s/^/[seed $s] /"
done; done
